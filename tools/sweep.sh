#!/bin/bash
# tools/sweep.sh [seeds...] : run every implemented check's quick tier under several seeds; print summaries and violations only
cd "$(dirname "$0")/.."
seeds="${@:-1 2 3 4 5}"
export VERIF_EVIDENCE_DIR=/dev/shm/sweep-ev VERIF_OUT_DIR="$PWD/out-sweep"
for s in $seeds; do
  for c in $(ls props | grep -E '^c[0-9]+\.py$' | sed 's/\.py//' | tr a-z A-Z); do
    echo "== seed $s $c"
    VERIF_SEED=$s timeout 1200 ./check $c quick 2>&1 | grep -E "^(VIOLATION|  fingerprint|  detail|C[0-9]+ quick|HARNESS-ERROR)" | cut -c1-400 | head -12
  done
done
