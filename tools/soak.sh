#!/bin/bash
# tools/soak.sh [budget seconds per property] [seed] : thorough tier of every check, summaries and violations only
cd "$(dirname "$0")/.."
b="${1:-600}"; s="${2:-7}"
export VERIF_EVIDENCE_DIR=/dev/shm/soak-ev VERIF_OUT_DIR="$PWD/out-soak" VERIF_BUDGET_S=$b VERIF_SEED=$s
for c in $(ls props | grep -E '^c[0-9]+\.py$' | sed 's/\.py//' | tr a-z A-Z); do
  echo "== soak seed $s $c"
  timeout $((b*3+600)) ./check $c thorough 2>&1 | grep -E "^(VIOLATION|  fingerprint|  detail|C[0-9]+ thorough|HARNESS-ERROR|KNOWN|NOTE)" | cut -c1-420 | head -20
done
