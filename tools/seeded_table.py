#!/venv/bin/python
"""tools/seeded_table.py : rebuild the table of DESIGN.md 10.7 from seeded/<id>/meta.json (run after tools/seeded.py)."""
import json
import os
import re

VERIF = os.path.dirname(os.path.dirname(os.path.abspath(__file__)))


def key(name):
    m = re.match(r"C(\d+)-(\d+)([bc]?)", name)
    return (int(m.group(1)), int(m.group(2)), m.group(3))


def main():
    rows = []
    caught = 0
    names = sorted((n for n in os.listdir(os.path.join(VERIF, "seeded")) if re.match(r"^C\d+-\d+[bc]?$", n)), key=key)
    for n in names:
        p = os.path.join(VERIF, "seeded", n, "meta.json")
        if not os.path.exists(p):
            continue
        m = json.load(open(p))
        fps = (m.get("check") or {}).get("first_fingerprints") or []
        oracle = "-"
        if fps:
            try:
                oracle = json.loads(fps[0]).get("oracle", "-")
            except Exception:
                mm = re.search(r'"oracle": "([^"]+)"', fps[0])
                oracle = mm.group(1) if mm else "-"
        first = (m.get("needs_to_manifest") or "").strip().splitlines()[0] if m.get("needs_to_manifest") else ""
        first = first.replace("|", "\\|")[:170]
        status = m.get("status")
        caught += status == "caught"
        rows.append("| %s | %s quick | %s | %s |" % (n, m["property"], oracle if status == "caught" else "MISSED", first))
    table = "| id | check | oracle that fires | what the change is (first line of the agent's notes) |\n|---|---|---|---|\n" + "\n".join(rows) + "\n"
    path = os.path.join(VERIF, "DESIGN.md")
    s = open(path).read()
    a = s.index("| id | check | oracle that fires |")
    b = s.index("\n(", a)
    s = s[:a] + table + s[b:]
    open(path, "w").write(s)
    print("%d kept changes, %d caught" % (len(rows), caught))


if __name__ == "__main__":
    main()
