#!/bin/bash
# tools/mut.sh <patch.diff> <check-id> [tier] [extra args]  : run a check against a scratch copy of /repo with the patch applied
set -e
patch="$1"; id="$2"; tier="${3:-quick}"; shift; shift; shift || true
d=$(mktemp -d /dev/shm/mut-XXXXXX)
trap 'rm -rf "$d"' EXIT
mkdir -p "$d/repo"
cp -r /repo/py7zr "$d/repo/py7zr"
cp -r /repo/tests "$d/repo/tests" 2>/dev/null || true
(cd "$d/repo" && patch -s -p1 < "$patch")
cd /verif
VERIF_REPO="$d/repo" VERIF_EVIDENCE_DIR="$d/evidence" ./check "$id" "$tier" "$@"
