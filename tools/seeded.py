#!/venv/bin/python
"""tools/seeded.py <src dir of candidate mutants> [names...]
For every candidate (patch.diff + demo.py + notes.txt):
  1. scratch worktree of /repo HEAD under /tmp, demo on the clean tree (must exit 0),
  2. apply the patch (must apply), demo again (must exit 1), the repository's unedited test suite (must pass: 335),
  3. run the property's quick check against a scratch copy with the patch (tools/mut.sh) and record what it reports,
  4. keep it as /verif/seeded/<id>/{patch.diff, demo.py, meta.json}.
Scratch worktrees are removed as soon as each candidate is done."""
import json
import os
import re
import shutil
import subprocess
import sys
from concurrent.futures import ThreadPoolExecutor

VERIF = os.path.dirname(os.path.dirname(os.path.abspath(__file__)))


def sh(cmd, timeout=2400, cwd=None, env=None):
    p = subprocess.run(cmd, shell=True, capture_output=True, text=True, timeout=timeout, cwd=cwd, env=env)
    return p.returncode, p.stdout + p.stderr


def one(src, name):
    d = os.path.join(src, name)
    prop = name.split("-")[0]
    wt = "/tmp/sv-%s" % name
    meta = {"id": name, "property": prop, "source": "independent sub-agent given only the property text and a scratch worktree"}
    notes = os.path.join(d, "notes.txt")
    if os.path.exists(notes):
        meta["needs_to_manifest"] = open(notes).read().strip()[:1500]
    sh("git -C /repo worktree remove --force %s" % wt)
    rc, out = sh("git -C /repo worktree add -q --detach %s HEAD" % wt)
    if rc:
        meta["status"] = "worktree failed: " + out[-200:]
        return meta
    try:
        env = dict(os.environ, PYTHONPATH=wt)
        rc0, _ = sh("cd /tmp && timeout 300 /venv/bin/python %s/demo.py" % d, env=env)
        rc, out = sh("git apply --check %s/patch.diff" % d, cwd=wt)
        if rc:
            meta["status"] = "patch does not apply to the current tree (context changed by a later fix: commit)"
            meta["verified"] = False
            return meta
        sh("git apply %s/patch.diff" % d, cwd=wt)
        rc1, _ = sh("cd /tmp && timeout 300 /venv/bin/python %s/demo.py" % d, env=env)
        rct, tout = sh("timeout 1500 /venv/bin/python -m pytest -q -p no:cacheprovider --timeout=900 2>&1 | tail -1", cwd=wt, env=env)
        m = re.search(r"(\d+) passed", tout)
        meta["ran"] = {"demo_on_clean_tree_exit": rc0, "demo_with_change_exit": rc1, "test_suite_with_change": tout.strip()[-80:]}
        meta["verified"] = bool(rc0 == 0 and rc1 != 0 and m and int(m.group(1)) >= 335 and "failed" not in tout)
    finally:
        sh("git -C /repo worktree remove --force %s" % wt)
    # the check
    tier_args = "quick"
    rc, out = sh("cd %s && timeout 2400 tools/mut.sh %s/patch.diff %s %s" % (VERIF, d, prop, tier_args), timeout=2600)
    viol = [ln for ln in out.splitlines() if ln.startswith("VIOLATION")]
    fps = [ln.strip()[13:] for ln in out.splitlines() if ln.strip().startswith("fingerprint:")]
    summary = [ln for ln in out.splitlines() if re.match(r"^C\d+ quick:", ln)]
    meta["check"] = {"command": "tools/mut.sh seeded/%s/patch.diff %s quick" % (name, prop), "exit": rc, "violations_reported": len(viol),
                     "first_fingerprints": fps[:3], "summary": summary[-1] if summary else out[-300:]}
    meta["caught_by"] = prop if rc == 1 and viol else None
    meta["status"] = "caught" if meta["caught_by"] else "missed"
    dst = os.path.join(VERIF, "seeded", name)
    os.makedirs(dst, exist_ok=True)
    shutil.copy(os.path.join(d, "patch.diff"), dst)
    shutil.copy(os.path.join(d, "demo.py"), dst)
    return meta


def main():
    src = sys.argv[1]
    names = sys.argv[2:] or sorted(n for n in os.listdir(src) if re.match(r"^C\d+-\d+[bc]?$", n) and os.path.exists(os.path.join(src, n, "patch.diff")))
    with ThreadPoolExecutor(max_workers=3) as ex:
        for meta in ex.map(lambda n: one(src, n), names):
            name = meta["id"]
            print(name, meta.get("status"), "verified=%s" % meta.get("verified"), (meta.get("check") or {}).get("summary", "")[-90:], flush=True)
            dst = os.path.join(VERIF, "seeded", name)
            if meta.get("verified"):
                os.makedirs(dst, exist_ok=True)
                with open(os.path.join(dst, "meta.json"), "w") as f:
                    json.dump(meta, f, indent=1)
            else:
                shutil.rmtree(dst, ignore_errors=True)
                os.makedirs(os.path.join(VERIF, "seeded", "_rejected"), exist_ok=True)
                with open(os.path.join(VERIF, "seeded", "_rejected", name + ".json"), "w") as f:
                    json.dump(meta, f, indent=1)


if __name__ == "__main__":
    main()
