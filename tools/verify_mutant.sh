#!/bin/bash
# tools/verify_mutant.sh <dir with patch.diff demo.py>  -> prints RESULT line; scratch worktree removed afterwards
d="$1"; name=$(basename "$d")
wt=/tmp/vm-$name
git -C /repo worktree remove --force $wt 2>/dev/null
git -C /repo worktree add -q --detach $wt HEAD || exit 9
cd $wt
( cd /tmp && PYTHONPATH=$wt timeout 300 /venv/bin/python $d/demo.py >/dev/null 2>&1 ); clean=$?
if ! git apply --check $d/patch.diff 2>/dev/null; then echo "RESULT $name patch-does-not-apply"; git -C /repo worktree remove --force $wt; exit 0; fi
git apply $d/patch.diff
( cd /tmp && PYTHONPATH=$wt timeout 300 /venv/bin/python $d/demo.py >/dev/null 2>&1 ); mut=$?
t=$(PYTHONPATH=$wt timeout 1500 /venv/bin/python -m pytest -q -p no:cacheprovider --timeout=900 2>&1 | tail -1)
echo "RESULT $name demo_clean=$clean demo_mutant=$mut tests: $t"
cd /; git -C /repo worktree remove --force $wt
