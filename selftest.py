"""setup / self tests (DESIGN.md 7.1, 7.2, 3.1 self-check of the oracle)."""
import glob
import hashlib
import json
import os
import sys

HERE = os.path.dirname(os.path.abspath(__file__))
FIXTURE_TABLE = os.path.join(HERE, "ref7z", "fixtures.json")
PASSWORDS = {"encrypted_1.7z": "secret", "encrypted_2.7z": "secret", "encrypted_3.7z": "secret", "encrypted_5.7z": "secret",
             "encrypted_6.7z": "secret", "filename_encryption.7z": "hello"}


def fixture_digest_table(repo):
    import ref7z

    table = {}
    for p in sorted(glob.glob(os.path.join(repo, "tests", "data", "*.7z"))):
        b = os.path.basename(p)
        with open(p, "rb") as f:
            img = f.read()
        try:
            a = ref7z.read(img, PASSWORDS.get(b))
        except Exception as e:
            table[b] = {"error": type(e).__name__}
            continue
        table[b] = {"members": [[m.name, m.kind, hashlib.sha256(m.data).hexdigest()[:16] if m.data is not None else None] for m in a.members],
                    "issues": len(a.issues), "undecoded": len(a.undecoded)}
    return table


def setup():
    """Offline sanity: imports come from the working tree, the reference reader reproduces the committed table of
    member names and digests for the shipped fixtures (never consults py7zr)."""
    from simkit.seams import REPO, import_py7zr

    py7zr = import_py7zr()
    print("py7zr from", py7zr.__file__)
    table = fixture_digest_table(REPO)
    if os.path.exists(FIXTURE_TABLE):
        with open(FIXTURE_TABLE) as f:
            want = json.load(f)
        bad = [k for k in want if table.get(k) != want[k]]
        if bad:
            print("HARNESS-ERROR ref7z self-check: fixture table differs for", bad)
            return 2
        print("ref7z self-check: %d fixtures reproduce the committed table" % len(want))
    else:
        with open(FIXTURE_TABLE, "w") as f:
            json.dump(table, f, indent=1, sort_keys=True)
        print("ref7z fixture table written (%d entries)" % len(table))
    return 0


def determinism(args):
    print("selftest-determinism: see simkit/selfdet.py")
    import simkit.selfdet as sd

    return sd.main(args)


def mutants(args):
    import simkit.selfmut as sm

    return sm.main(args)
