import sys; sys.path.insert(0,'/verif')
import py7zr, io
from simkit import gen
from py7zr.io import BytesIOFactory
datas=[gen.materialize({"len": 4096, "seed": 18054227, "tex": "zero"}),gen.materialize({"len": 7, "seed": 29786099, "tex": "rand"}),gen.materialize({"len": 32769, "seed": 16620499, "tex": "text"}),gen.materialize({"len": 32767, "seed": 947925858, "tex": "rand"})]
for order in (6,22):
  for upto in (4,):
    bio=io.BytesIO()
    with py7zr.SevenZipFile(bio,'w',filters=[{'id':py7zr.FILTER_PPMD,'order':order,'mem':24}]) as z:
        for i,d in enumerate(datas[:upto]): z.writestr(d,'m%d'%i)
    bio.seek(0)
    try:
        with py7zr.SevenZipFile(bio) as z:
            f=BytesIOFactory(1<<22); z.extractall(factory=f)
            print(order, [f.products['m%d'%i].read()==datas[i] for i in range(upto)])
    except Exception as e: print(order, repr(e))
import pyppmd
blob=b''.join(datas)
for order in (6,22):
    e=pyppmd.Ppmd7Encoder(order,1<<24); c=e.encode(blob)+e.flush()
    d=pyppmd.Ppmd7Decoder(order,1<<24); out=d.decode(c,len(blob))
    while len(out)<len(blob):
