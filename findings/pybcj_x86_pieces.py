import sys; sys.path.insert(0,'/verif')
import bcj, random
from simkit import gen
data=gen.materialize({"len": 33, "seed": 120616513, "tex": "code"})
enc=bcj.BCJEncoder(); e=enc.encode(data)+enc.flush()
for piece in (1,2,3,4,5,8,33):
    d=bcj.BCJDecoder(len(e)); out=b''
    for i in range(0,len(e),piece): out+=d.decode(e[i:i+piece])
    # drain
    for _ in range(10): out+=d.decode(b'')
    print(piece, out==data, len(out))
