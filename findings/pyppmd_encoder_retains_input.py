import pyppmd, tracemalloc, gc
unit=(bytes(range(251))*4200)
def rd(k): return (unit*(k//len(unit)+1))[:k]
tracemalloc.start(4)
enc=pyppmd.Ppmd7Encoder(6, 1<<24)
for i in range(64):
    data=rd(1<<20)
    out=enc.encode(data)
gc.collect()
snap=tracemalloc.take_snapshot()
for st in snap.statistics("lineno")[:3]: print(st)
