import py7zr, io
from py7zr.io import BytesIOFactory
import py7zr.properties as P
for n in (100,258,259,263,1000,70000):
    bio=io.BytesIO()
    with py7zr.SevenZipFile(bio,'w',filters=[{'id':P.FILTER_DEFLATE64}]) as z: z.writestr(bytes(n),'z')
    bio.seek(0)
    try:
        with py7zr.SevenZipFile(bio) as z:
            f=BytesIOFactory(1<<20); z.extractall(factory=f); print(n, f.products['z'].read()==bytes(n))
    except Exception as e: print(n, repr(e))
