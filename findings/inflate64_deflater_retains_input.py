import inflate64, resource, os
def rss(): 
    return int(open("/proc/self/status").read().split("VmRSS:")[1].split()[0])//1024
d=inflate64.Deflater()
tot=0; block=bytes(1<<20)
for i in range(256):
    out=d.deflate(b"\x01"*(1<<20)); tot+=len(out)
    if i%64==63: print(i+1,"MiB in, out so far",tot,"rss",rss(),"MiB")
out=d.flush(); tot+=len(out); print("flush", len(out), tot, rss())
