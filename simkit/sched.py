"""Baton-passing deterministic scheduler (DESIGN.md 2.3): real OS threads, but exactly one runs at a time and every
hand-over is a recorded decision drawn from the run's PRNG (or replayed from a list).  SimThread / SimQueue / clock
stand in for threading.Thread / queue.Queue / time inside py7zr."""
import os as _os
import queue as _queue
import threading

from .seams import REPO as _REPO

_PY7ZR_PREFIX = _os.path.join(_os.path.realpath(_REPO), "py7zr") + _os.sep


class SimKill(BaseException):
    """Unwinds a parked simulated thread when the run is over."""


class Deadlock(BaseException):
    pass


class _T:
    __slots__ = ("tid", "name", "sem", "state", "pred", "wake", "real", "daemon", "error", "target")

    def __init__(self, tid, name):
        self.tid = tid
        self.name = name
        self.sem = threading.Semaphore(0)
        self.state = "runnable"  # runnable | blocked | done | new
        self.pred = None
        self.wake = None
        self.real = None
        self.daemon = False
        self.error = None


class Scheduler:
    def __init__(self, rng=None, replay=None, strategy=None, max_steps=200000):
        self.rng = rng
        self.replay = list(replay) if replay is not None else None
        self.strategy = strategy or {"kind": "random", "stay": 0.5}
        self.threads = [_T(0, "main")]
        self.current = 0
        self.now = 0.0
        self.choices = []  # recorded decisions (index into the sorted runnable list)
        self.events = []  # (seq, tid, tag)
        self.poison = False
        self.steps = 0
        self.max_steps = max_steps
        self.switches = 0
        self._prio = {}
        self._pct_points = None
        self.lock = threading.Lock()
        if self.strategy["kind"] == "pct":
            self._pct_points = set(self.strategy.get("points", []))
        # optional line-level pre-emption (thorough tier): every 'line' event in a py7zr frame of a simulated thread is a
        # potential yield point, taken with probability line_p (seeded) or at the recorded counters (replay)
        self.line_p = float(self.strategy.get("line_p", 0.0))
        self.line_replay = set(self.strategy["line_yields"]) if self.strategy.get("line_yields") is not None else None
        self.line_counter = 0
        self.line_yields = []
        self._line_rng = None
        if self.line_p and rng is not None:
            self._line_rng = rng.sub("line") if hasattr(rng, "sub") else rng

    # -- line-level pre-emption ---------------------------------------------------------------------
    def tracing(self):
        return bool(self.line_p or self.line_replay)

    def _trace_global(self, frame, event, arg):
        if frame.f_code.co_filename.startswith(_PY7ZR_PREFIX):
            return self._trace_local
        return None

    def _trace_local(self, frame, event, arg):
        if event == "line" and not self.poison:
            self.line_counter += 1
            if self.line_replay is not None:
                do = self.line_counter in self.line_replay
            else:
                do = self._line_rng is not None and self._line_rng.random() < self.line_p
            if do:
                self.line_yields.append(self.line_counter)
                self.yield_(("line", frame.f_lineno))
        return self._trace_local

    # -- bookkeeping -----------------------------------------------------------------------------
    def log(self, tag):
        self.events.append((len(self.events), self.current, tag))

    def _runnable(self):
        out = []
        for t in self.threads:
            if t.state == "runnable":
                out.append(t.tid)
            elif t.state == "blocked":
                if t.pred is not None and t.pred():
                    t.state = "runnable"
                    t.pred = None
                    t.wake = None
                    out.append(t.tid)
                elif t.wake is not None and t.wake <= self.now:
                    t.state = "runnable"
                    out.append(t.tid)
        return out

    def _pick(self, cands):
        cands = sorted(cands)
        if len(cands) == 1:
            return cands[0]
        if self.replay is not None:
            idx = self.replay.pop(0) if self.replay else 0
            idx = min(idx, len(cands) - 1)
        else:
            k = self.strategy["kind"]
            if k == "random":
                if self.current in cands and self.rng.random() < self.strategy.get("stay", 0.5):
                    idx = cands.index(self.current)
                else:
                    idx = self.rng.randrange(len(cands))
            elif k == "pct":
                for c in cands:
                    if c not in self._prio:
                        self._prio[c] = self.rng.random() + 1.0
                if self.steps in self._pct_points and self.current in self._prio:
                    self._prio[self.current] = self.rng.random() * 0.5  # demote the running thread
                idx = max(range(len(cands)), key=lambda i: self._prio[cands[i]])
            elif k == "starve":
                victim = self.strategy.get("victim", 1)
                others = [c for c in cands if c != victim]
                pool = others or cands
                if self.current in pool and self.rng.random() < 0.5:
                    idx = cands.index(self.current)
                else:
                    idx = cands.index(pool[self.rng.randrange(len(pool))])
            else:
                idx = 0
        self.choices.append(idx)
        return cands[idx]

    def _dispatch(self, finishing=False):
        """Choose who runs next; called by the thread that currently holds the baton."""
        self.steps += 1
        if self.steps > self.max_steps:
            self.poison = True
            raise Deadlock("scheduler step limit exceeded")
        me = self.current
        while True:
            cands = self._runnable()
            if cands:
                break
            timers = [t.wake for t in self.threads if t.state == "blocked" and t.wake is not None]
            if not timers:
                # nothing can ever run again
                self.poison = True
                mt = self.threads[0]
                if me != 0 and mt.state != "done":
                    mt.state = "runnable"
                    mt.error = "deadlock"
                    self.current = 0
                    mt.sem.release()
                    if not finishing:
                        self.threads[me].sem.acquire()
                    raise SimKill()
                raise Deadlock("no runnable thread and no timer")
            self.now = min(timers)
        nxt = self._pick(cands)
        if nxt == me:
            return
        self.switches += 1
        self.current = nxt
        self.threads[nxt].sem.release()
        if not finishing:
            self.threads[me].sem.acquire()
            if self.poison and me != 0:
                raise SimKill()
            if me == 0 and self.threads[0].error == "deadlock":
                self.threads[0].error = None
                raise Deadlock("no runnable thread and no timer")

    # -- API used by the simulated primitives --------------------------------------------------------
    def yield_(self, tag=None):
        if self.poison:
            if self.current != 0 and threading.current_thread() is not self.threads[0].real:
                raise SimKill()
            return
        if tag is not None:
            self.log(tag)
        self._dispatch()

    def block(self, pred, timeout=None, tag=None):
        """Park the running thread until pred() holds or ``timeout`` simulated seconds passed.  Returns pred()."""
        if pred():
            self.yield_(tag)
            return True
        if self.poison:
            raise SimKill()
        t = self.threads[self.current]
        if tag is not None:
            self.log(tag)
        t.state = "blocked"
        t.pred = pred
        t.wake = None if timeout is None else self.now + timeout
        self._dispatch()
        t.state = "runnable"
        t.pred = None
        t.wake = None
        return pred()

    def sleep(self, d, tag=None):
        t = self.threads[self.current]
        if tag is not None:
            self.log(tag)
        t.state = "blocked"
        t.pred = None
        t.wake = self.now + d
        self._dispatch()
        t.state = "runnable"
        t.wake = None

    def time(self):
        return self.now

    # -- threads ----------------------------------------------------------------------------------------
    def spawn(self, target, args=(), kwargs=None, daemon=False, name=None):
        t = _T(len(self.threads), name or "T%d" % len(self.threads))
        t.daemon = bool(daemon)
        t.state = "new"
        self.threads.append(t)

        def run():
            t.sem.acquire()  # wait for the baton
            try:
                if self.poison:
                    return
                if self.tracing():
                    import sys as _sys

                    _sys.settrace(self._trace_global)
                target(*args, **(kwargs or {}))
            except SimKill:
                pass
            except BaseException as e:  # an uncaught exception in a thread body
                t.error = e
            finally:
                t.state = "done"
                if not self.poison:
                    self.log(("exit", t.tid))
                    try:
                        self._dispatch(finishing=True)
                    except (Deadlock, SimKill):
                        pass

        t.real = threading.Thread(target=run, name="sim-%d" % t.tid, daemon=True)
        t.target = run
        return t

    def start(self, t):
        t.real.start()
        t.state = "runnable"
        self.yield_(("start", t.tid))

    def join(self, t, timeout=None):
        self.block(lambda: t.state == "done", timeout, ("join", t.tid))

    def shutdown(self):
        """Release every parked thread with the poison flag so no OS thread is leaked."""
        self.poison = True
        for t in self.threads[1:]:
            if t.state != "done" and t.real is not None and t.real.is_alive():
                t.sem.release()
        for t in self.threads[1:]:
            if t.real is not None and t.real.is_alive():
                t.real.join(2.0)

    def interleaving_signature(self, kinds=("out",)):
        return tuple((tid, tag) for _, tid, tag in self.events if isinstance(tag, tuple) and tag[0] in kinds)


# ---------------------------------------------------------------------------------------------------
# stand-ins handed to py7zr
# ---------------------------------------------------------------------------------------------------
def make_thread_class(sched: Scheduler):
    class SimThread:
        def __init__(self, group=None, target=None, name=None, args=(), kwargs=None, daemon=None):
            self._t = sched.spawn(target, args, kwargs, daemon=daemon, name=name)
            self.daemon = bool(daemon)
            self.name = self._t.name

        def start(self):
            sched.start(self._t)

        def join(self, timeout=None):
            sched.join(self._t, timeout)

        def is_alive(self):
            return self._t.state != "done"

    return SimThread


def make_queue_module(sched: Scheduler):
    class SimQueue:
        def __init__(self, maxsize=0):
            self._items = []
            self.maxsize = maxsize
            self.unfinished = 0

        def put(self, item, block=True, timeout=None):
            if self.maxsize > 0 and len(self._items) >= self.maxsize:
                ok = sched.block(lambda: len(self._items) < self.maxsize, timeout, ("qfull", id(self) & 0xFFFF))
                if not ok:
                    raise _queue.Full
            self._items.append(item)
            self.unfinished += 1
            sched.yield_(("put", _tagname(item)))

        def put_nowait(self, item):
            if self.maxsize > 0 and len(self._items) >= self.maxsize:
                raise _queue.Full
            self._items.append(item)
            self.unfinished += 1
            sched.yield_(("put", _tagname(item)))

        def get(self, block=True, timeout=None):
            if not self._items:
                if not block:
                    raise _queue.Empty
                ok = sched.block(lambda: bool(self._items), timeout, ("get",))
                if not ok:
                    raise _queue.Empty
            else:
                sched.yield_(("get",))
            return self._items.pop(0)

        def get_nowait(self):
            return self.get(block=False)

        def empty(self):
            return not self._items

        def qsize(self):
            return len(self._items)

        def task_done(self):
            self.unfinished -= 1

        def join(self):
            sched.block(lambda: self.unfinished <= 0, None, ("qjoin",))

    class QueueModule:
        Queue = SimQueue
        Empty = _queue.Empty
        Full = _queue.Full

    return QueueModule


def _tagname(item):
    if isinstance(item, tuple) and item and isinstance(item[0], str):
        return item[0]
    return type(item).__name__


class SchedTime:
    """Stands in for the ``time`` module inside py7zr.py7zr: simulated clock, optionally advanced on every read."""

    def __init__(self, sched, advance=None):
        self._s = sched
        self._adv = advance

    def time(self):
        if self._adv is not None:
            self._s.now += self._adv()
        return self._s.now

    def __getattr__(self, name):
        import time as _t

        return getattr(_t, name)


class FsYield:
    """Filesystem calls as scheduling points: while active, every os-level call that creates, removes, renames or looks at a
    path (stat, mkdir, symlink, unlink, utime, chmod, open ...) made by the thread that holds the baton first hands the baton
    to the scheduler.  A check-then-act sequence on the real scratch filesystem (exists() ... mkdir()) can then be cut by
    another worker exactly as the kernel would allow it, and the cut is a recorded, replayable decision."""

    NAMES = ("stat", "lstat", "mkdir", "rmdir", "symlink", "unlink", "remove", "rename", "replace", "utime", "chmod", "readlink", "open", "scandir", "listdir")

    def __init__(self, sched, root):
        self.sched = sched
        self.root = _os.path.realpath(root)
        self.saved = {}
        self.count = 0

    def _wrap(self, name, real):
        sched = self.sched
        root = self.root

        def wrapper(path, *a, **kw):
            try:
                p = _os.fspath(path)
                if isinstance(p, bytes):
                    p = p.decode("utf-8", "surrogateescape")
                inside = isinstance(p, str) and (p.startswith(root) or not p.startswith("/"))
            except TypeError:
                inside = False
            if inside and not sched.poison and self._holds_baton():
                self.count += 1
                sched.yield_(("fs", name))
            return real(path, *a, **kw)

        wrapper.__name__ = name
        return wrapper

    def _holds_baton(self):
        t = self.sched.threads[self.sched.current]
        cur = threading.current_thread()
        if t.tid == 0:
            return cur is threading.main_thread() or not cur.name.startswith("sim-")
        return t.real is cur

    def __enter__(self):
        for n in self.NAMES:
            real = getattr(_os, n, None)
            if real is None:
                continue
            self.saved[n] = real
            setattr(_os, n, self._wrap(n, real))
        return self

    def __exit__(self, *exc):
        for n, real in self.saved.items():
            setattr(_os, n, real)
        self.saved = {}
        return False
