"""Seeded generators shared by the engines: member names, content recipes, filter chains, passwords, knobs.
Everything returned is JSON-serialisable (a *recipe*); ``materialize`` turns a content recipe into bytes."""
import hashlib
import random

# --- names -----------------------------------------------------------------------------------
_ASCII = "abcdefghijklmnopqrstuvwxyzABCXYZ0123456789_-+=,;!@#$%&()[]{}~'"
_BMP = "äöüßéèñçøåœæ¿¡«»αβγδλμπωЖЩжщאבגدعقあいうえおカキク漢字日本語한글中文ไทย—…€£¥©®™✓★♥"
_ASTRAL = "😀🎉🚀𝔘𝕏𝒜🧪🀄𐍈𠜎𠮷🇯🇵"
_CTRL = "".join(chr(c) for c in range(1, 32))


def gen_component(rng, style=None):
    style = style or rng.wpick([(6, "ascii"), (3, "bmp"), (2, "astral"), (1, "ctrl"), (1, "space"), (1, "dot"), (1, "drive"), (1, "mixed"), (1, "long"), (1, "special")])
    n = rng.randint(1, 8)
    if style == "ascii":
        s = "".join(rng.pick(_ASCII) for _ in range(n))
    elif style == "bmp":
        s = "".join(rng.pick(_BMP) for _ in range(n))
    elif style == "astral":
        s = "".join(rng.pick(_ASTRAL + "ab") for _ in range(n))
    elif style == "ctrl":
        s = "".join(rng.pick(_CTRL + "xyz") for _ in range(n))
    elif style == "space":
        s = rng.pick([" ", "  a", "a ", " a b ", "a  b", "\t", " ."])
    elif style == "dot":
        s = rng.pick([".hidden", "..a", "...", ".a.", "a.", "a..", ".x" + rng.pick(_ASCII)])
    elif style == "drive":
        s = rng.pick(["c:", "C:", "c:x", "z:"]) + "".join(rng.pick(_ASCII) for _ in range(rng.randint(0, 3)))
    elif style == "special":
        # scalar values codecs and normalisers like to treat specially: byte-order marks and their mirror image, noncharacters,
        # line/paragraph separators, zero-width and bidi controls, a combining mark first, NFC next to NFD
        s = rng.pick(["\ufeffbom", "\ufffeab", "\ufeff", "\ufffe", "a\ufeff", "\uffff", "\ufdd0x", "\U0001fffe", "\u2028l", "a\u2029", "\u200bz", "\u202ea",
                      "\u0301a", "\u00e9", "e\u0301", "\u212b", "\u00c5", "\ufb01", "\U0010ffff", "\ud7ff\ue000",
                      # UTF-16 code units with a zero low byte next to ones with a zero high byte: 00 bytes that are no terminator
                      "\u4e00.txt", "a\u0100", "\u0100\u0200b", "x\u4e00\u0100"]) + rng.pick(["", "", "q", "\ufeff"])
    elif style == "long":
        s = "".join(rng.pick(_ASCII + _BMP) for _ in range(rng.randint(40, 120)))
    else:
        s = "".join(rng.pick(_ASCII + _BMP + _ASTRAL + _CTRL + " .") for _ in range(n))
    s = s.replace("/", "_").replace("\\", "_").replace("\x00", "_")
    if s in ("", ".", ".."):
        s = s + "x"
    return s


def gen_name(rng, maxdepth=6, style=None):
    depth = rng.wpick([(5, 1), (4, 2), (2, 3), (1, 4), (1, 5), (1, 6)])
    depth = min(depth, maxdepth)
    return "/".join(gen_component(rng, style) for _ in range(depth))


def gen_names(rng, n, style=None, safe_prefix=False):
    """n pairwise distinct names.  safe_prefix: no name is a proper string prefix of another except along '/'
    boundaries, and no name is a directory prefix of another (needed for extraction to a real tree)."""
    out = []
    seen = set()
    tries = 0
    while len(out) < n and tries < 50 * n + 50:
        tries += 1
        nm = gen_name(rng, style=style)
        if nm in seen:
            continue
        if safe_prefix:
            bad = False
            for o in out:
                if o.startswith(nm) or nm.startswith(o):
                    bad = True
                    break
            if bad:
                continue
        seen.add(nm)
        out.append(nm)
    return out


# --- contents --------------------------------------------------------------------------------
def size_classes(block):
    # ... and the sizes at which the header's variable-length NUMBER encoding changes its length (2^7, 2^14)
    return [0, 1, 2, 15, 16, 17, 31, 32, 33, 47, 48, 63, 64, 100, 255, 256, 1000, block - 1, block, block + 1, 2 * block - 1,
            2 * block, 2 * block + 1, 3 * block + 7, 127, 128, 129, 16383, 16384, 16385]


def gen_content(rng, block=32768, maxlen=65536, minlen=0):
    tex = rng.wpick([(4, "rand"), (3, "rep"), (3, "code"), (1, "zero"), (2, "text"), (1, "crc0")])
    if rng.chance(0.6):
        cands = [s for s in size_classes(block) if minlen <= s <= maxlen]
        n = rng.pick(cands) if cands else minlen
    else:
        n = int(min(maxlen, max(minlen, rng.expovariate(1 / 600.0))))
    return {"tex": tex, "len": n, "seed": rng.randrange(1 << 30)}


_WORDS = ("the quick brown fox jumps over lazy dog lorem ipsum dolor sit amet archive header stream "
          "folder coder packed size digest").split()


def materialize(rc) -> bytes:
    if "hex" in rc:
        return bytes.fromhex(rc["hex"])
    n, tex = rc["len"], rc["tex"]
    r = random.Random(rc["seed"])
    if n == 0:
        return b""
    if tex == "rand":
        return r.getrandbits(8 * n).to_bytes(n, "little")
    if tex == "crc0":
        # content whose CRC32 is 0 (or all ones): a legal digest that is falsy / looks like "undefined"
        if n < 4:
            return forge_crc32(b"", 0)[:4]
        body = r.getrandbits(8 * (n - 4)).to_bytes(n - 4, "little")
        return forge_crc32(body, r.choice([0, 0, 0xFFFFFFFF]))
    if tex == "zero":
        return bytes(n)
    if tex == "rep":
        period = r.choice([1, 2, 3, 4, 7, 16, 64, 255])
        unit = r.getrandbits(8 * period).to_bytes(period, "little")
        return (unit * (n // period + 1))[:n]
    if tex == "text":
        out = []
        ln = 0
        while ln < n:
            w = r.choice(_WORDS)
            out.append(w)
            ln += len(w) + 1
        return (" ".join(out).encode() + b" " * n)[:n]
    if tex == "half":
        # about 2:1 compressible: 512 random bytes, 512 zeros, ... - one 1 MiB block of packed input decodes to about 2 MiB
        out = bytearray()
        while len(out) < n:
            out += r.getrandbits(8 * 512).to_bytes(512, "little") + bytes(512)
        return bytes(out[:n])
    if tex == "calls":
        # nothing but x86 CALL/JMP rel32 instructions whose operands the BCJ filter converts (high byte 00 / FF), after a
        # prefix of 0..4 bytes: wherever a piece or the stream ends, an operand straddles the cut
        # "skip": this member is the slice [skip, skip+len) of the stream, so that consecutive members of one folder continue it
        skip = rc.get("skip", 0)
        out = bytearray(r.getrandbits(8 * 4).to_bytes(4, "little")[: r.randrange(5)])
        while len(out) < skip + n:
            out += bytes([r.choice([0xE8, 0xE9])]) + r.getrandbits(24).to_bytes(3, "little") + bytes([r.choice([0x00, 0xFF])])
        return bytes(out[skip:skip + n])
    if tex == "code":
        # machine-code-like: call/jump opcodes of several ISAs followed by plausible displacements
        out = bytearray()
        while len(out) < n:
            k = r.randrange(8)
            if k == 0:
                out += bytes([r.choice([0xE8, 0xE9])]) + r.choice([b"\x00\x00\x00\x00", b"\xff\xff\xff\xff", r.getrandbits(16).to_bytes(2, "little") + b"\x00\x00", r.getrandbits(16).to_bytes(2, "little") + b"\xff\xff"])
            elif k == 1:
                out += r.getrandbits(24).to_bytes(3, "little") + b"\xeb"  # ARM BL
            elif k == 2:
                out += bytes([0x48 | r.randrange(4)]) + r.getrandbits(16).to_bytes(2, "big") + bytes([(r.randrange(64) << 2) | 1])  # PPC bl
            elif k == 3:
                out += bytes([0x40 | r.randrange(2) * 0x3F]) + (b"\x00" if r.random() < 0.5 else b"\xff") + r.getrandbits(16).to_bytes(2, "big")  # SPARC call
            elif k == 4:
                hi = 0xF000 | r.getrandbits(11)
                lo = 0xF800 | r.getrandbits(11)
                out += hi.to_bytes(2, "little") + lo.to_bytes(2, "little")  # Thumb BL
            elif k == 5:
                out += bytes([r.choice([0x10, 0x11, 0x12, 0x13, 0x16, 0x17])]) + r.getrandbits(120).to_bytes(15, "little")  # IA64 bundle
            else:
                out += r.getrandbits(8 * 6).to_bytes(6, "little")
        return bytes(out[:n])
    raise ValueError(tex)


_CRC_TABLE = None


def patch_crc32(data: bytes, pos: int, target: int = 0) -> bytes:
    """``data`` with the four bytes at ``pos`` replaced such that zlib.crc32(result) == target."""
    forge_crc32(b"", 0)  # make sure the table exists
    t = _CRC_TABLE
    rev = {t[i] >> 24: i for i in range(256)}
    want = target ^ 0xFFFFFFFF
    for b in reversed(data[pos + 4:]):
        i = rev[want >> 24]
        want = ((((want ^ t[i]) << 8) & 0xFFFFFFFF) | (i ^ b)) & 0xFFFFFFFF
    head = forge_crc32(data[:pos], want ^ 0xFFFFFFFF)
    return head + data[pos + 4:]


def forge_crc32(data: bytes, target: int = 0) -> bytes:
    """data + 4 bytes such that zlib.crc32(result) == target."""
    import zlib

    global _CRC_TABLE
    if _CRC_TABLE is None:
        t = []
        for i in range(256):
            c = i
            for _ in range(8):
                c = (c >> 1) ^ 0xEDB88320 if c & 1 else c >> 1
            t.append(c)
        _CRC_TABLE = t
    t = _CRC_TABLE
    rev = {t[i] >> 24: i for i in range(256)}
    want = target ^ 0xFFFFFFFF
    cur = zlib.crc32(data) ^ 0xFFFFFFFF
    # walk the register backwards through four table steps
    idx = []
    w = want
    for _ in range(4):
        i = rev[w >> 24]
        idx.append(i)
        w = ((w ^ t[i]) << 8) & 0xFFFFFFFF
    idx.reverse()
    reg = cur
    patch = bytearray()
    for i in idx:
        b = (reg ^ i) & 0xFF
        patch.append(b)
        reg = (reg >> 8) ^ t[i]
    out = data + bytes(patch)
    assert zlib.crc32(out) == target, "crc forge failed"
    return out


def content_digest(b: bytes) -> str:
    return hashlib.sha256(b).hexdigest()[:16]


# --- filter chains -----------------------------------------------------------------------------
COMPRESSORS = ["LZMA2", "LZMA", "BZIP2", "DEFLATE", "DEFLATE64", "COPY", "ZSTD", "PPMD", "BROTLI"]
BCJS = ["X86", "ARM", "ARMT", "PPC", "SPARC"]
FRONT = ["DELTA", "X86", "ARM", "ARMT", "PPC", "SPARC", "IA64"]


def _params(rng, cid, heavy=False):
    f = {"id": cid}
    if cid in ("LZMA2", "LZMA"):
        if rng.chance(0.7):
            f["preset"] = rng.pick([0, 1, 2, 3, 4, 5, 6] + ([7, 8, 9] if heavy else []))
            if rng.chance(0.15):
                f["extreme"] = True
    elif cid == "ZSTD":
        if rng.chance(0.7):
            f["level"] = rng.randint(1, 19 if not heavy else 22)
    elif cid == "BROTLI":
        if rng.chance(0.7):
            f["level"] = rng.randint(0, 9 if not heavy else 11)
        else:
            f["level"] = 4
    elif cid == "PPMD":
        if rng.chance(0.8):
            f["order"] = rng.randint(2, 32)
            # pyppmd crashes or corrupts streams when the model memory is small (known finding): such values stay in the
            # mix, rarely, so that the wall-clock backstop is not what most PPMd runs end in
            small = rng.chance(0.1)
            f["mem"] = rng.pick([11, 12, 16, "64k", "4096b"]) if small else rng.pick([20, 24, "20", "1m", "2m", "16m"] + ([26] if heavy else []))
    elif cid == "DELTA":
        if rng.chance(0.7):
            f["dist"] = rng.pick([1, 2, 3, 4, 8, 16, 255, 256])
    return f


def documented_chains():
    """The chains docs/api.rst lists as 'possible filters values' (must be accepted and must round-trip)."""
    L2 = {"id": "LZMA2", "preset": 6}
    A = {"id": "AES"}
    return [
        [{"id": "DELTA"}, L2], [{"id": "X86"}, L2], [{"id": "ARM"}, L2], [{"id": "X86"}, {"id": "LZMA"}], [L2],
        [{"id": "LZMA"}], [{"id": "BZIP2"}], [{"id": "DEFLATE"}], [{"id": "ZSTD", "level": 3}],
        [{"id": "PPMD", "order": 6, "mem": 24}], [{"id": "PPMD", "order": 6, "mem": "16m"}], [{"id": "BROTLI", "level": 11}],
        [{"id": "DELTA"}, L2, A], [{"id": "X86"}, L2, A], [{"id": "LZMA"}, A], [{"id": "DEFLATE"}, A], [{"id": "BZIP2"}, A],
        [{"id": "ZSTD"}, A],
    ]


def gen_chain(rng, heavy=False, allow_aes=True, force_aes=None):
    """A chain from the quantifier's product: compressor, optional front filter, optional 7zAES."""
    kind = rng.wpick([(3, "doc"), (5, "single"), (4, "front"), (1, "default"), (1, "front2")])
    if kind == "default":
        chain = None
    elif kind == "doc":
        chain = [dict(f) for f in rng.pick(documented_chains())]
    elif kind == "front2":
        # a cascade of three native filters (py7zr allows up to four): Delta and a branch filter in front of LZMA/LZMA2
        comp = "LZMA2"  # (the same cascade in front of LZMA1 is written but cannot be read back by py7zr: DESIGN.md 10.5, outside the quantifiers)
        bcj = rng.pick([b for b in BCJS if b in FRONT] or ["X86"])
        two = [_params(rng, "DELTA", heavy), _params(rng, bcj, heavy)]
        if rng.chance(0.5):
            two.reverse()
        chain = two + [_params(rng, comp, heavy)]
    else:
        comp = rng.pick(COMPRESSORS)
        chain = [_params(rng, comp, heavy)]
        if kind == "front":
            if comp in ("LZMA", "LZMA2"):
                fr = rng.pick(FRONT)
            else:
                fr = rng.pick(BCJS)
            chain.insert(0, _params(rng, fr, heavy))
    aes = force_aes if force_aes is not None else (allow_aes and rng.chance(0.3))
    if chain is not None:
        has = any(f["id"] == "AES" for f in chain)
        if aes and not has:
            chain.append({"id": "AES"})
        if not aes and has and force_aes is False:
            chain = [f for f in chain if f["id"] != "AES"]
    return chain


def chain_family(chain):
    if chain is None:
        return "default"
    return "+".join(f["id"] for f in chain)


def chain_has_aes(chain):
    return chain is not None and any(f["id"] == "AES" for f in chain)


def to_filters(chain):
    """Chain recipe -> py7zr ``filters`` argument."""
    if chain is None:
        return None
    import lzma

    import py7zr.properties as py7zr

    ids = {
        "LZMA2": py7zr.FILTER_LZMA2, "LZMA": py7zr.FILTER_LZMA, "BZIP2": py7zr.FILTER_BZIP2, "DEFLATE": py7zr.FILTER_DEFLATE,
        "DEFLATE64": py7zr.FILTER_DEFLATE64, "COPY": py7zr.FILTER_COPY, "ZSTD": py7zr.FILTER_ZSTD, "PPMD": py7zr.FILTER_PPMD,
        "BROTLI": py7zr.FILTER_BROTLI, "DELTA": py7zr.FILTER_DELTA, "X86": py7zr.FILTER_X86, "ARM": py7zr.FILTER_ARM,
        "ARMT": py7zr.FILTER_ARMTHUMB, "PPC": py7zr.FILTER_POWERPC, "SPARC": py7zr.FILTER_SPARC, "IA64": py7zr.FILTER_IA64,
        "AES": py7zr.FILTER_CRYPTO_AES256_SHA256,
    }
    out = []
    for f in chain:
        d = {"id": ids[f["id"]]}
        for k, v in f.items():
            if k == "id":
                continue
            if k == "extreme":
                continue
            d[k] = v
        if f.get("extreme"):
            d["preset"] = d.get("preset", 6) | lzma.PRESET_EXTREME
        out.append(d)
    return out


# --- passwords ------------------------------------------------------------------------------------
def gen_password(rng):
    return rng.wpick([(4, "secret"), (2, "pässwörd"), (1, ""), (1, "🔑key𝕏"), (1, "a"), (1, "with space and a much longer pass phrase 0123456789"),
                      # white space at the ends is part of the password
                      (1, rng.pick([" lead", "trail ", "\u3000x\n", " \u2003 ", "tab\t"])),
                      # not in any Unicode normal form: the key is derived from the code units as given
                      (2, rng.pick(["e\u0301cole", "\u1112\u1161\u11ab\u1100\u1173\u11af", "\u212bngstro\u0308m", "A\u030a\u00c5\u212b", "\ufb01\u1e9b\u0323"])),
                      (2, "".join(rng.pick(_ASCII + _BMP) for _ in range(rng.randint(1, 12))))])


# --- knobs ------------------------------------------------------------------------------------------
def gen_knobs(rng, small=True):
    if small:
        block = rng.wpick([(2, 16), (2, 17), (2, 255), (3, 4096), (3, 32768), (2, 1048576)])
    else:
        block = rng.wpick([(1, 32768), (3, 1048576)])
    return {
        "block": block,
        "chunk": rng.wpick([(1, 1), (1, 2), (1, 15), (1, 16), (1, 17), (2, 4096), (4, 128000000)]),
        "bufsize": rng.pick([16, 512, 4096, 8192, 65536]),
    }


def dep_flags(chains, read_chunk=None, read_block=None):
    """Fingerprint class flags naming third-party codec paths with known streaming defects (see known_findings.json)."""
    flags = {}
    ppmd = any(c is not None and any(f["id"] == "PPMD" for f in c) for c in chains)
    bcjx = any(c is not None and any(f["id"] in BCJS for f in c) and not any(f["id"] == "LZMA2" for f in c) for c in chains)
    if ppmd:
        flags["uses_pyppmd"] = True
    if any(c is not None and any(f["id"] == "DEFLATE64" for f in c) for c in chains):
        flags["uses_inflate64"] = True
    if bcjx:
        flags["uses_pybcj"] = True
        if (read_chunk is not None and read_chunk < 4096) or (read_block is not None and read_block < 4096):
            flags["small_pieces"] = True
    return flags
