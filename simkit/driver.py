"""Batch runner: seeded case generation, forked pool, violation triage (shrink -> known-findings filter ->
replay file), evidence writer, replay.  DESIGN.md 2.1, 2.5, 6, 7.3."""
import hashlib
import json
import os
import shutil
import sys
import time
import traceback

from .pool import run_pool
from .prng import Rng

VERIF = os.path.dirname(os.path.dirname(os.path.abspath(__file__)))
OUT = os.environ.get("VERIF_OUT_DIR") or os.path.join(VERIF, "out")
KNOWN = os.path.join(VERIF, "known_findings.json")


def scratch_root():
    d = "/dev/shm/verif-%d" % os.getpid()
    os.makedirs(d, exist_ok=True)
    return d


def seed_from_env():
    try:
        return int(os.environ.get("VERIF_SEED", "20261004"))
    except ValueError:
        return int(hashlib.sha256(os.environ["VERIF_SEED"].encode()).hexdigest()[:8], 16)


def load_known(prop):
    try:
        with open(KNOWN) as f:
            kf = json.load(f)
    except FileNotFoundError:
        return []
    return [e for e in kf.get("findings", []) if e.get("property") == prop]


def fp_matches(entry, fp):
    flat = dict(fp)
    for k, v in (fp.get("class") or {}).items():
        flat.setdefault(k, v)
    for k, v in entry["match"].items():
        got = flat.get(k)
        if isinstance(v, list):
            if got not in v:
                return False
        elif got != v:
            return False
    return True


def fp_key(fp):
    return json.dumps(fp, sort_keys=True, default=str)


def case_digest(case):
    return hashlib.sha256(json.dumps(case, sort_keys=True, default=str).encode()).hexdigest()[:24]


class Runner:
    def __init__(self, mod, tier, seed, nworkers=None, n=None, budget_s=None):
        self.mod = mod
        self.tier = tier
        self.seed = seed
        plan = mod.plan(tier)
        self.n = n if n is not None else plan.get("n")
        self.budget_s = budget_s if budget_s is not None else plan.get("budget_s")
        self.case_timeout = plan.get("case_timeout", 120.0)
        self.nworkers = nworkers or plan.get("workers", int(os.environ.get("VERIF_WORKERS", "16")))
        self.rlimit_as = plan.get("rlimit_as")
        self.prop = mod.PROPERTY

    # executed inside pool workers -------------------------------------------------------------
    def _job(self, job):
        kind = job[0]
        if kind == "run":
            i = job[1]
            case = self.mod.gen_case(Rng(self.seed, self.prop, i), i, self.tier)
            t0 = time.monotonic()
            res = self.mod.run_case(case)
            res["wall"] = time.monotonic() - t0
            res["index"] = i
            if res.get("violations"):
                res["case"] = case
            return res
        if kind == "exec":
            return self.mod.run_case(job[1])
        if kind == "shrink":
            return shrink(self.mod, job[1], job[2])
        raise ValueError(kind)

    def _init_worker(self, wid):
        d = os.path.join(scratch_root_parent(), "w%d" % wid)
        os.makedirs(d, exist_ok=True)
        os.environ["VERIF_SCRATCH"] = d
        if hasattr(self.mod, "init_worker"):
            self.mod.init_worker(wid)

    # --------------------------------------------------------------------------------------------
    def run(self):
        t0 = time.monotonic()
        global _PARENT_SCRATCH
        _PARENT_SCRATCH = scratch_root()
        os.environ["VERIF_SCRATCH_ROOT"] = _PARENT_SCRATCH
        agg = {
            "evals": 0, "cases": 0, "distinct": set(), "distinct_n": 0, "case_digests": set(), "faults": {}, "probes": {},
            "samples": [], "sim_steps": 0, "sim_time": 0.0, "rejected": {}, "lint": {}, "classes": {},
            "interleavings": set(), "extra": {},
        }
        violations = []
        harness_errors = []
        deadline = t0 + self.budget_s if self.budget_s else None
        jobs = (("run", i) for i in range(self.n if self.n else 10**12))
        try:
            for job, status, payload in run_pool(self._job, jobs, self.nworkers, self.case_timeout, deadline, self.rlimit_as, self._init_worker):
                i = job[1]
                if status == "ok":
                    self._merge(agg, payload)
                    for v in payload.get("violations", []):
                        violations.append((i, payload.get("case"), v))
                elif status == "harness_error":
                    harness_errors.append((i, payload))
                else:
                    # a worker runs many cases: a death (or a stall) can be the late effect of an earlier case's damage to the
                    # process (the dependency crashes listed as known findings) or of machine load.  The case is blamed only
                    # if it does the same alone in a fresh process; otherwise its fresh result counts and the event is
                    # reported in the evidence as unattributed.
                    confirmed = True
                    # once two stalls have been confirmed the next ones are taken at face value: re-running every case of a tree
                    # that hangs would multiply the wall-clock budget.  A death is always re-run (it costs one case): the listed
                    # dependency crashes are confirmed deaths too, and must not use up the allowance of the others
                    rerun = [job] if status != "timeout" or agg["extra"].get("confirmed_worker_stalls", 0) < 2 else []
                    for job2, st2, pl2 in run_pool(self._job, rerun, 1, self.case_timeout, None, self.rlimit_as, lambda wid: self._init_worker(10000)):
                        if st2 == "ok":
                            confirmed = False
                            self._merge(agg, pl2)
                            for v in pl2.get("violations", []):
                                violations.append((i, pl2.get("case"), v))
                            key = "unattributed_worker_%s" % ("stalls" if status == "timeout" else "deaths")
                            agg["extra"][key] = agg["extra"].get(key, 0) + 1
                            print("NOTE: worker %s while running case %d (%s); the case passes alone in a fresh process - not attributed to it" % (
                                "stalled" if status == "timeout" else "died", i, payload), flush=True)
                        elif st2 == "harness_error":
                            confirmed = False
                            harness_errors.append((i, pl2))
                    if not confirmed:
                        continue
                    agg["extra"]["confirmed_worker_stalls_or_deaths"] = agg["extra"].get("confirmed_worker_stalls_or_deaths", 0) + 1
                    if status == "timeout":
                        agg["extra"]["confirmed_worker_stalls"] = agg["extra"].get("confirmed_worker_stalls", 0) + 1
                    case = self.mod.gen_case(Rng(self.seed, self.prop, i), i, self.tier)
                    oracle = "wall_timeout_backstop" if status == "timeout" else "interpreter_died"
                    fp = {"oracle": oracle, "site": "case"}
                    if hasattr(self.mod, "case_class"):
                        fp["class"] = self.mod.case_class(case)
                    violations.append((i, case, {"fp": fp, "detail": payload, "nondeterministic_backstop": True}))
                    agg["cases"] += 1
            wall = time.monotonic() - t0
            rc = self._finish(agg, violations, harness_errors, wall)
        finally:
            shutil.rmtree(_PARENT_SCRATCH, ignore_errors=True)
        return rc

    def _merge(self, agg, r):
        agg["cases"] += 1
        agg["evals"] += r.get("evals", 1)
        for s, nontrivial in r.get("sigs", []):
            if nontrivial:
                agg["distinct"].add(s if isinstance(s, str) else json.dumps(s, sort_keys=True, default=str))
        if r.get("distinct_n"):
            d = r.get("digest") or str(r.get("index"))
            if d not in agg["case_digests"]:
                agg["case_digests"].add(d)
                agg["distinct_n"] += r["distinct_n"]
        for key in ("faults", "probes", "rejected", "lint", "classes"):
            for k, v in (r.get(key) or {}).items():
                agg[key][k] = agg[key].get(k, 0) + v
        for il in r.get("interleavings", []):
            agg["interleavings"].add(il)
        agg["sim_steps"] += r.get("sim_steps", 0)
        agg["sim_time"] += r.get("sim_time", 0.0)
        for k, v in (r.get("extra") or {}).items():
            if k.startswith("max_"):
                agg["extra"][k] = max(agg["extra"].get(k, 0), v)
            else:
                agg["extra"][k] = agg["extra"].get(k, 0) + v
        if r.get("sample") is not None and len(agg["samples"]) < 4 and (r["index"] < 64 or not agg["samples"]):
            agg["samples"].append(r["sample"])

    def _finish(self, agg, violations, harness_errors, wall):
        known = load_known(self.prop)
        seen_known = {}
        new = {}
        budget_left = 8  # distinct new fingerprints to minimise and report
        for i, case, v in violations:
            fp = v["fp"]
            hit = next((e for e in known if fp_matches(e, fp)), None)
            if hit is not None:
                seen_known.setdefault(hit["id"], [hit, 0])[1] += 1
                continue
            k = fp_key(fp)
            if k in new:
                new[k]["count"] += 1
                if len(new[k]["alts"]) < 2:
                    new[k]["alts"].append((i, case, v))
                continue
            new[k] = {"index": i, "case": case, "violation": v, "count": 1, "alts": []}
        reported = []
        work = list(new.items())
        while work:
            k, ent = work.pop(0)
            if budget_left <= 0:
                break
            budget_left -= 1
            case, v = ent["case"], ent["violation"]
            minimised, vv = case, v
            if case is not None and hasattr(self.mod, "shrink_candidates") and not v.get("nondeterministic_backstop"):
                recurs = True
                try:
                    for job, status, payload in run_pool(self._job, [("shrink", case, v["fp"])], 1, 600.0, None, self.rlimit_as, self._init_worker):
                        if status == "ok" and payload is not None:
                            minimised, vv = payload
                        elif status == "ok":
                            recurs = False
                    if not recurs:
                        # a run is a pure function of its case, so a replay file must fail on its own.  The shrinker's first
                        # step - the unchanged case, alone, in a fresh process - did not: ask once more, and if the violation
                        # still does not recur it came from the state of the worker that had run thousands of cases before
                        # (the listed dependency crashes damage the heap before they kill the process), not from this case.
                        for job, status, payload in run_pool(self._job, [("exec", case)], 1, 600.0, None, self.rlimit_as, lambda wid: self._init_worker(10001)):
                            if status != "ok" or any(fp_key(x["fp"]) == k for x in (payload or {}).get("violations", [])):
                                recurs = True
                except Exception:
                    traceback.print_exc()
                    recurs = True
                if not recurs:
                    agg["extra"]["unreproduced_violations"] = agg["extra"].get("unreproduced_violations", 0) + ent["count"]
                    budget_left += 1
                    print("NOTE: case %d produced %s in a long-lived worker but not when run alone in a fresh process (twice) - no replay file can show it, not reported"
                          % (ent["index"], json.dumps(v["fp"], sort_keys=True, default=str)[:300]), flush=True)
                    if ent["alts"]:
                        # the same fingerprint was also produced by other cases: judge it by the next of them
                        i2, case2, v2 = ent["alts"].pop(0)
                        work.insert(0, (k, {"index": i2, "case": case2, "violation": v2, "count": max(1, ent["count"] - 1), "alts": ent["alts"]}))
                        agg["extra"]["unreproduced_violations"] -= max(0, ent["count"] - 1)
                    continue
            # the known-findings filter is applied to the minimised case's fingerprint
            hit = next((e for e in known if fp_matches(e, vv["fp"])), None)
            if hit is not None:
                seen_known.setdefault(hit["id"], [hit, 0])[1] += ent["count"]
                continue
            path = self._write_replay(ent["index"], minimised, vv, case)
            reported.append((vv, path, ent["count"]))
        for hid, (e, cnt) in sorted(seen_known.items()):
            print("KNOWN-FINDING: property=%s %s [%s; seen %d times in this run]" % (self.prop, e["description"], hid, cnt))
        for vv, path, cnt in reported:
            print("VIOLATION property=%s replay=%s" % (self.prop, path))
            print("  fingerprint: %s" % json.dumps(vv["fp"], sort_keys=True, default=str))
            print("  detail: %s  (x%d)" % (str(vv.get("detail"))[:600], cnt))
        for i, tb in harness_errors[:3]:
            print("HARNESS-ERROR property=%s case=%d\n%s" % (self.prop, i, tb))
        self._write_evidence(agg, wall, len(reported), seen_known, harness_errors)
        zero = [k for k, v in agg["probes"].items() if v == 0]
        for k in zero:
            print("WARNING: probe %s = 0" % k)
        nd = len(agg["distinct"]) + agg["distinct_n"]
        print("%s %s: %d cases, %d evaluations, %d distinct non-trivial, %.1f s, %d violation(s), %d known finding(s)%s"
              % (self.prop, self.tier, agg["cases"], agg["evals"], nd, wall, len(reported), len(seen_known),
                 ", %d HARNESS ERRORS" % len(harness_errors) if harness_errors else ""))
        if reported:
            return 1
        if harness_errors:
            return 2
        return 0

    def _write_replay(self, index, case, v, original):
        d = os.path.join(OUT, "replays", self.prop)
        os.makedirs(d, exist_ok=True)
        path = os.path.join(d, "%s-seed%d-run%d-%s.json" % (self.prop, self.seed, index, hashlib.sha256(fp_key(v["fp"]).encode()).hexdigest()[:8]))
        doc = {
            "property": self.prop, "engine": getattr(self.mod, "ENGINE", "?"), "verif_seed": self.seed, "run_index": index, "tier": self.tier,
            "case": case, "violation": {"fingerprint": v["fp"], "detail": str(v.get("detail"))[:4000]}, "trace": v.get("trace"),
            "minimised_from": {"case_digest": case_digest(original) if original is not None else None},
        }
        with open(path, "w") as f:
            json.dump(doc, f, indent=1, sort_keys=True, default=str)
        return path

    def _write_evidence(self, agg, wall, nviol, seen_known, harness_errors):
        nd = len(agg["distinct"]) + agg["distinct_n"]
        cov = {
            "evaluations": agg["evals"],
            "distinct_nontrivial": nd,
            "rule": self.mod.RULE,
            "samples": agg["samples"][:4] or ["(no case completed)"],
            "cases": agg["cases"],
            "runs_per_hour": int(agg["cases"] / wall * 3600) if wall > 0 else 0,
            "evaluations_per_hour": int(agg["evals"] / wall * 3600) if wall > 0 else 0,
            "seeds": {"verif_seed": self.seed, "run_indices": [0, agg["cases"]], "derivation": "run_seed = sha256(VERIF_SEED|property|index)"},
            "sim_steps": agg["sim_steps"],
            "sim_time_s": round(agg["sim_time"], 3),
            "faults_injected": agg["faults"],
            "probes": agg["probes"],
            "probes_zero": [k for k, v in agg["probes"].items() if v == 0],
            "distinct_classes": agg["classes"],
            "rejected_chains": agg["rejected"],
            "lint": agg["lint"],
            "components": getattr(self.mod, "COMPONENTS", {}),
            "known_findings_seen": {hid: cnt for hid, (e, cnt) in seen_known.items()},
            "harness_errors": len(harness_errors),
        }
        if agg["interleavings"]:
            cov["distinct_interleavings"] = len(agg["interleavings"])
            cov["interleaving_measure"] = getattr(self.mod, "INTERLEAVING_MEASURE", "hash of the scheduler decision sequence")
        cov.update(agg["extra"])
        if getattr(self.mod, "EXHAUSTIVE", False):
            cov["exhaustive"] = False
        doc = {
            "property_id": self.prop, "tier": self.tier, "seed": self.seed, "level": self.mod.LEVEL, "coverage": cov,
            "assumptions": getattr(self.mod, "ASSUMPTIONS", []), "wall_s": round(wall, 2), "violations": nviol,
        }
        evd = os.environ.get("VERIF_EVIDENCE_DIR") or os.path.join(VERIF, "evidence")
        os.makedirs(evd, exist_ok=True)
        tmp = os.path.join(evd, ".%s.tmp" % self.prop)
        with open(tmp, "w") as f:
            json.dump(doc, f, indent=1, sort_keys=True, default=str)
        os.replace(tmp, os.path.join(evd, "%s.json" % self.prop))


_PARENT_SCRATCH = None


def scratch_root_parent():
    return os.environ.get("VERIF_SCRATCH_ROOT") or scratch_root()


def worker_scratch():
    d = os.environ.get("VERIF_SCRATCH")
    if not d:
        d = os.path.join(scratch_root(), "main")
        os.makedirs(d, exist_ok=True)
    return d


def shrink(mod, case, fp, max_rounds=60, time_budget=240.0):
    """Delta-debugging over the explicit case: accept a candidate iff the same violation fingerprint recurs."""
    t0 = time.monotonic()
    target = fp_key(fp)

    def still_fails(c):
        try:
            r = mod.run_case(c)
        except BaseException:
            return None
        for v in r.get("violations", []):
            if fp_key(v["fp"]) == target:
                return v
        return None

    cur = case
    curv = still_fails(case)
    if curv is None:
        return None
    if curv.get("sub") is not None and hasattr(mod, "pin") and getattr(mod, "PIN_FIRST", False):
        cand = mod.pin(cur, curv["sub"])
        v = still_fails(cand)
        if v is not None:
            return cand, v
    rounds = 0
    progress = True
    while progress and rounds < max_rounds and time.monotonic() - t0 < time_budget:
        progress = False
        rounds += 1
        for cand in mod.shrink_candidates(cur):
            if time.monotonic() - t0 > time_budget:
                break
            v = still_fails(cand)
            if v is not None:
                cur, curv = cand, v
                progress = True
                break
    if curv.get("sub") is not None and hasattr(mod, "pin"):
        cand = mod.pin(cur, curv["sub"])
        v = still_fails(cand)
        if v is not None:
            cur, curv = cand, v
    return cur, curv


def replay(mod, path):
    with open(path) as f:
        doc = json.load(f)
    case = doc["case"]
    want = fp_key(doc["violation"]["fingerprint"])
    os.environ["VERIF_SCRATCH_ROOT"] = scratch_root()
    try:
        # the address-space cap the pool workers of this check run under is part of the simulated machine
        cap = mod.plan(doc.get("tier") or "quick").get("rlimit_as")
        if cap:
            import resource

            resource.setrlimit(resource.RLIMIT_AS, (cap, cap))
    except Exception:
        pass
    try:
        r = mod.run_case(case)
    finally:
        shutil.rmtree(scratch_root(), ignore_errors=True)
    got = [v for v in r.get("violations", [])]
    same = [v for v in got if fp_key(v["fp"]) == want]
    known = load_known(mod.PROPERTY)
    if same:
        v = same[0]
        hit = next((e for e in known if fp_matches(e, v["fp"])), None)
        if hit is not None:
            print("KNOWN-FINDING: property=%s %s [%s]" % (mod.PROPERTY, hit["description"], hit["id"]))
            print("replay reproduces the listed finding; digest=%s" % r.get("digest"))
            return 0
        print("VIOLATION property=%s replay=%s" % (mod.PROPERTY, path))
        print("  fingerprint: %s" % json.dumps(v["fp"], sort_keys=True, default=str))
        print("  detail: %s" % str(v.get("detail"))[:2000])
        print("  digest=%s" % r.get("digest"))
        return 1
    if got:
        unknown = [v for v in got if not any(fp_matches(e, v["fp"]) for e in known)]
        if not unknown:
            hit = next(e for e in known if fp_matches(e, got[0]["fp"]))
            print("KNOWN-FINDING: property=%s %s [%s]" % (mod.PROPERTY, hit["description"], hit["id"]))
            print("replay produces a listed finding (fingerprint differs from the recorded one); digest=%s" % r.get("digest"))
            return 0
        got = unknown
        print("replay produced a different violation: %s" % json.dumps(got[0]["fp"], sort_keys=True, default=str))
        print("VIOLATION property=%s replay=%s" % (mod.PROPERTY, path))
        return 1
    print("replay: no violation (digest=%s)" % r.get("digest"))
    return 0
