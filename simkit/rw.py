"""Write-session and read-session executors over the simulated device (engines ``wsim`` / ``rsim`` building blocks).

A *session recipe* is JSON:  {"mode": "w"|"x"|"a", "chain": chain|None, "password": str|None,
 "header": "raw"|"enc"|"crypt", "header_via": "ctor"|"setter", "header_extra": [["encoded"|"encrypted", bool], ...] (optional, mode-preserving),
 "ops": [op, ...], "close": "close"|"ctx"}
op = {"op": "writestr", "name": str, "content": rc, "as": "bytes"|"bytearray"|"memoryview"|"str"}
   | {"op": "writef", "name": str, "content": rc, "bio": "bytesio"|"buffered", "offset": int}
"""
import io
import os

from . import gen
from .device import SimFS, SimRaw
from .seams import import_py7zr

SIM_PATH = "/sim/archive.7z"


import collections

Mem = collections.namedtuple("Mem", "name data kind mtime attrs")  # mtime: FILETIME int or None (= set from the clock)


def pairs(added):
    """(name, bytes) of the members that carry data (files and symlinks), in order."""
    return [(m.name, m.data) for m in added if m.kind != "dir"]


class Rejected(Exception):
    """py7zr refused the filter chain before writing any member (counted, not a violation)."""


def _open_target(fs: SimFS, kind: str, mode: str, bufsize: int):
    """Returns (file argument for SevenZipFile, finisher) for the device kind."""
    if kind == "path":
        return SIM_PATH, (lambda: None)
    sf = fs.files.get(SIM_PATH)
    if mode in ("w", "x"):
        if sf is None:
            sf = fs.add(SIM_PATH)
        else:
            del sf.data[:]
    elif sf is None:
        sf = fs.add(SIM_PATH)  # mode 'a' on a missing file: a caller would hand an empty read/write stream
    raw = SimRaw(sf, readable=True, writable=True, hook=fs.hook, handle_id=9000 + len(sf.trace))
    if kind == "stream":
        return raw, (lambda: raw.close())
    if kind == "bufobj":
        bo = io.BufferedRandom(raw, buffer_size=bufsize)

        def fin():
            bo.flush()
            bo.close()

        return bo, fin
    raise ValueError(kind)


def content_bytes(op):
    data = gen.materialize(op["content"])
    if op.get("as") == "str":
        # model = the UTF-8 encoding of the text py7zr is handed
        return data.decode("latin-1").encode("utf-8")
    off = op.get("offset", 0)
    return data[off:]


def run_write_session(fs: SimFS, sess: dict, kind: str = "path", bufsize: int = 8192, after_op=None):
    """Run one create/append session with the real SevenZipFile.  Returns the list of (name, bytes) the session
    added (model delta).  Raises Rejected if the chain is refused on the first member."""
    py7zr = import_py7zr()
    target, fin = _open_target(fs, kind, sess["mode"], bufsize)
    kwargs = {}
    filters = gen.to_filters(sess.get("chain"))
    if filters is not None:
        kwargs["filters"] = filters
    if sess.get("password") is not None:
        kwargs["password"] = sess["password"]
    hdr = sess.get("header", "enc")
    if hdr == "crypt" and sess.get("header_via", "ctor") == "ctor":
        kwargs["header_encryption"] = True
    added = []
    z = None
    error = None
    try:
        try:
            z = py7zr.SevenZipFile(target, sess["mode"], **kwargs)
        except py7zr.exceptions.UnsupportedCompressionMethodError as e:
            raise Rejected(repr(e))
        if hdr == "raw":
            z.set_encoded_header_mode(False)
        elif hdr == "crypt" and sess.get("header_via") == "setter":
            z.set_encrypted_header(True)
        for which, arg in sess.get("header_extra") or []:
            (z.set_encoded_header_mode if which == "encoded" else z.set_encrypted_header)(arg)
        first = True
        refused_log = []
        for i, op in enumerate(sess["ops"]):
            data = content_bytes(op) if "content" in op else None
            try:
                if op["op"] == "writestr":
                    raw = gen.materialize(op["content"])
                    how = op.get("as", "bytes")
                    if how == "str":
                        arg = raw.decode("latin-1")
                    elif how == "bytearray":
                        arg = bytearray(raw)
                    elif how == "memoryview":
                        arg = memoryview(raw)
                    else:
                        arg = raw
                    z.writestr(arg, op["name"])
                elif op["op"] == "writef":
                    raw = gen.materialize(op["content"])
                    if op.get("bio") == "buffered":
                        bio = io.BufferedReader(io.BytesIO(raw))
                        bio.seek(op.get("offset", 0))
                    else:
                        bio = io.BytesIO(raw)
                        data = raw
                    z.writef(bio, op["name"])
                elif op["op"] == "write":
                    src = _materialize_source(op)
                    z.write(src, op["name"])
                elif op["op"] == "writeall":
                    from . import tree as _tree

                    root = _materialize_tree(op)
                    z.writeall(root, op["name"])
                    for nm, kind, payload in _tree.writeall_order(op["tree"], op["name"]):
                        e = next((x for x in op["tree"] if nm == op["name"] + "/" + x["path"]), None)
                        if kind == "dir":
                            added.append(Mem(nm, None, "dir", None, None))
                        elif kind == "file":
                            added.append(Mem(nm, payload, "file", _tree.to_filetime(e["mtime_ns"]), e["mode"]))
                        else:
                            added.append(Mem(nm, payload.encode("utf-8"), "symlink", None, None))
                elif op["op"] == "refused":
                    # a call the caller expects to fail, catches, and carries on after (the histories of C15): the archive must come out
                    # as if the call had never been made
                    try:
                        _refused_call(z, op)
                    except (OSError, ValueError, UnicodeError, TypeError) as e:
                        refused_log.append((op["how"], type(e).__name__))
                        continue
                    raise RuntimeError("harness: the %r call was expected to be refused and was accepted" % op["how"])
                else:
                    raise ValueError(op["op"])
            except py7zr.exceptions.UnsupportedCompressionMethodError as e:
                if first:
                    raise Rejected(repr(e))
                raise
            first = False
            if op["op"] == "write":
                from . import tree as _tree

                added.append(Mem(op["name"], data, "file", _tree.to_filetime(op["mtime_ns"]), op.get("mode")))
            elif op["op"] != "writeall":
                added.append(Mem(op["name"], data, "file", None, None))
            if after_op is not None:
                after_op(i)
        z.close()
        z = None
        _absorb_dealloc_noise(False)
    except Rejected:
        # the archive object is abandoned, as a caller would after the exception
        z = None
        _absorb_dealloc_noise()
        raise
    except Exception as e:  # the session failed: report to the engine, which decides what that means
        error = e
        z = None
        _absorb_dealloc_noise()
    finally:
        try:
            fin()
        except Exception as e:  # noqa
            if error is None:
                error = e
    return added, error


def _src_dir():
    from . import driver

    d = os.path.join(driver.worker_scratch(), "src")
    os.makedirs(d, exist_ok=True)
    return d


_SRC_COUNTER = [0]


def _materialize_source(op):
    d = _src_dir()
    _SRC_COUNTER[0] += 1
    p = os.path.join(d, "f%d" % _SRC_COUNTER[0])
    with open(p, "wb") as f:
        f.write(gen.materialize(op["content"]))
    os.chmod(p, op.get("mode", 0o644))
    os.utime(p, ns=(op["mtime_ns"], op["mtime_ns"]))
    return p


def _refused_call(z, op):
    d = _src_dir()
    _SRC_COUNTER[0] += 1
    base = os.path.join(d, "r%d" % _SRC_COUNTER[0])
    how = op["how"]
    if how == "missing":
        z.write(base + "-absent", op["name"])
    elif how == "link_to_undecodable":
        # a link to an existing file whose name is no UTF-8: the link text cannot be stored
        os.mkdir(base)
        target = os.path.join(os.fsencode(base), b"caf\xe9.txt")
        with open(target, "wb") as f:
            f.write(b"x")
        os.symlink(b"caf\xe9.txt", os.path.join(os.fsencode(base), b"lnk"))
        z.write(os.path.join(base, "lnk"), op["name"])
    elif how == "fifo":
        os.mkfifo(base)
        z.write(base, op["name"])
    elif how == "surrogate_name":
        z.writestr(b"never stored", op["name"] + "\udc80")
    elif how == "missing_tree":
        z.writeall(base + "-absent-dir", op["name"])
    else:
        raise ValueError(how)


def _materialize_tree(op):
    from . import tree as _tree

    d = _src_dir()
    _SRC_COUNTER[0] += 1
    root = os.path.join(d, "t%d" % _SRC_COUNTER[0])
    _tree.build_tree(root, op["tree"])
    return root


def cleanup_sources():
    import shutil

    from . import tree as _tree

    d = _src_dir()
    _tree.make_removable(d)
    shutil.rmtree(d, ignore_errors=True)


def _absorb_dealloc_noise(collect=True):
    """Dropping an unfinished inflate64/zlib compressor can leave a pending C-level exception that CPython then
    attaches to an unrelated call (SystemError '... returned a result with an exception set').  Provoke and swallow
    it here, at a known place, so it cannot surface inside the harness."""
    import gc
    import sys

    hook = sys.unraisablehook
    sys.unraisablehook = lambda *a: None
    try:
        _absorb(collect, gc)
    finally:
        sys.unraisablehook = hook


def _absorb(collect, gc):
    for _ in range(3):
        try:
            if collect:
                gc.collect()
            list(reversed([1]))
        except (SystemError, OSError):
            continue
        break


class ReadResult:
    __slots__ = ("names", "products", "error", "list", "steps")

    def __init__(self):
        self.names = None
        self.products = None
        self.error = None
        self.list = None
        self.steps = 0


def make_factory():
    py7zr = import_py7zr()
    from py7zr.io import Py7zIO, WriterFactory

    class Rec(Py7zIO):
        def __init__(self, name):
            self.name = name
            self.buf = bytearray()
            self.writes = 0

        def write(self, s):
            self.buf += s
            self.writes += 1
            return len(s)

        def read(self, size=None):
            return bytes(self.buf)

        def seek(self, offset, whence=0):
            return 0

        def flush(self):
            pass

        def size(self):
            return len(self.buf)

    class RecFactory(WriterFactory):
        def __init__(self):
            self.products = {}
            self.order = []
            self.dups = []

        def create(self, filename):
            if filename in self.products:
                self.dups.append(filename)
            p = Rec(filename)
            self.products[filename] = p
            self.order.append(filename)
            return p

        def result(self):
            return {k: bytes(v.buf) for k, v in self.products.items()}

    return RecFactory()


def read_image(image: bytes, password=None, kind="stream", knobs=None, mp=False):
    """Open ``image`` with the real py7zr reader (fresh simulated device, inline worker schedule) and return
    names + factory products, or the exception."""
    from .seams import Seams

    py7zr = import_py7zr()
    knobs = knobs or {}
    res = ReadResult()
    fs = SimFS(buffer_size=knobs.get("bufsize", 8192))
    path = "/sim/read.7z"
    fs.add(path, image)
    with Seams(fs=fs, blocksize=knobs.get("block"), memlimit=knobs.get("chunk"), inline_threads=True):
        if kind == "path":
            target = path
        else:
            target = SimRaw(fs.get(path), readable=True, writable=False)
        try:
            z = py7zr.SevenZipFile(target, "r", password=password, mp=mp)
        except Exception as e:
            res.error = e
            return res
        try:
            res.names = z.getnames()
            fac = make_factory()
            z.extractall(factory=fac)
            res.products = fac.result()
        except Exception as e:
            res.error = e
        finally:
            try:
                z.close()
            except Exception as e:  # noqa
                if res.error is None:
                    res.error = e
    return res


# ---------------------------------------------------------------------------------------------
# session generation
# ---------------------------------------------------------------------------------------------
def gen_ops(rng, n, knobs, used_names, maxlen=65536, minlen=0, name_style=None, safe_prefix=False):
    ops = []
    names = []
    tries = 0
    while len(names) < n and tries < 200:
        tries += 1
        nm = gen.gen_name(rng, style=name_style)
        if nm in used_names or nm in names:
            continue
        if safe_prefix and any(o.startswith(nm) or nm.startswith(o) for o in list(used_names) + names):
            continue
        names.append(nm)
    cap = maxlen
    if knobs.get("chunk", 1 << 30) < 4096:
        cap = min(cap, 3000)
    if knobs.get("block", 1 << 30) < 256:
        cap = min(cap, 6000)
    for nm in names:
        rc = gen.gen_content(rng, block=knobs.get("block", 32768), maxlen=cap, minlen=minlen)
        if rng.chance(0.55):
            op = {"op": "writestr", "name": nm, "content": rc, "as": rng.wpick([(6, "bytes"), (1, "bytearray"), (1, "memoryview"), (2, "str")])}
            if op["as"] == "str" and rc["tex"] not in ("text", "rep", "zero"):
                op["as"] = "bytes"
        else:
            op = {"op": "writef", "name": nm, "content": rc, "bio": rng.pick(["bytesio", "buffered"])}
            if op["bio"] == "buffered" and rc["len"] > 4 and rng.chance(0.3):
                op["offset"] = rng.randint(1, min(rc["len"] - 1, 40))
        ops.append(op)
    return ops


def gen_session(rng, mode, knobs, used_names=(), nmax=4, maxlen=65536, password="__draw__", heavy=False, minlen=0, name_style=None,
                force_aes=None, safe_prefix=False):
    if password == "__draw__":
        password = gen.gen_password(rng) if rng.chance(0.3) else None
    chain = gen.gen_chain(rng, heavy=heavy, allow_aes=password is not None, force_aes=force_aes if password is not None else False)
    if password is None and chain is not None:
        chain = [f for f in chain if f["id"] != "AES"] or None
    hdr = rng.wpick([(2, "raw"), (4, "enc")] + ([(3, "crypt")] if password is not None else []))
    n = rng.wpick([(1, 0), (3, 1), (3, 2), (2, 3), (1, nmax)])
    sess = {
        "mode": mode, "chain": chain, "password": password, "header": hdr, "header_via": rng.pick(["ctor", "setter"]),
        "ops": gen_ops(rng, n, knobs, set(used_names), maxlen=maxlen, minlen=minlen, name_style=name_style, safe_prefix=safe_prefix),
    }
    extra = gen_header_extra(rng.sub("header_extra"), hdr)
    if extra:
        sess["header_extra"] = extra
    return sess


def gen_header_extra(rx, hdr, p=0.3):
    """Further setter calls that are legal and, by the documented meaning of the two setters, leave the header mode as it is."""
    if not rx.chance(p):
        return None
    return rx.pick({
        "crypt": [[["encoded", True]], [["encrypted", True]], [["encoded", True], ["encoded", True]], [["encoded", False], ["encrypted", True]]],
        "enc": [[["encoded", True]], [["encrypted", False]], [["encrypted", True], ["encrypted", False]]],
        "raw": [[["encrypted", False]], [["encoded", True], ["encoded", False]], [["encoded", False]]],
    }[hdr])


def session_names(sess):
    return [op["name"] for op in sess["ops"]]


def read_budget(image_len, total_out):
    """Step budget for reading a *valid* archive: generous (pristine reads use a few percent of it even with a
    1-byte chunk limit), yet a spin is cut after well under a second of CPU."""
    return 300000 + 100 * image_len + 200 * total_out
