"""Filesystem jail monitor (DESIGN.md 1.1, C03): an interpreter audit hook that sees every mutating filesystem
operation before it happens, resolves where it would really land, records escapes from the jail and vetoes anything
that would land outside the scratch root.  Plus before/after snapshots of the moat around the jail."""
import hashlib
import os
import stat
import sys

_STATE = {"active": False, "jail": None, "root": None, "events": [], "escapes": [], "vetoed": []}
_INSTALLED = [False]

_WRITE_FLAGS = os.O_WRONLY | os.O_RDWR | os.O_CREAT | os.O_TRUNC | os.O_APPEND


def _abs(p):
    if isinstance(p, bytes):
        p = os.fsdecode(p)
    p = os.fspath(p)
    if not os.path.isabs(p):
        p = os.path.join(os.getcwd(), p)
    return p


def _land_entry(p):
    """Where creating/removing the directory entry ``p`` lands: the real parent plus the last component."""
    p = _abs(p)
    parent, base = os.path.split(p.rstrip("/")) if p.rstrip("/") else ("/", "")
    return os.path.join(os.path.realpath(parent), base)


def _land_follow(p):
    """Where an operation that follows the final symlink (open for write, chmod, utime, truncate) lands."""
    return os.path.realpath(_abs(p))


def _inside(path, top):
    top = top.rstrip("/")
    return path == top or path.startswith(top + "/")


def _note(kind, land, raw):
    st = _STATE
    st["events"].append((kind, os.path.relpath(land, st["root"]) if _inside(land, st["root"]) else land))
    if not _inside(land, st["root"]):
        st["vetoed"].append((kind, land, str(raw)))
        raise PermissionError(13, "verif jail: operation outside the scratch root vetoed", land)
    if not _inside(land, st["jail"]):
        st["escapes"].append((kind, os.path.relpath(land, st["root"]), str(raw)))


def _hook(event, args):
    st = _STATE
    if not st["active"]:
        return
    try:
        if event == "open":
            path, mode, flags = args[0], args[1], args[2]
            if isinstance(path, int) or path is None:
                return
            if isinstance(flags, int) and flags & _WRITE_FLAGS:
                p = _abs(path)
                if os.path.lexists(p):
                    _note("open-write", _land_follow(p), path)
                else:
                    _note("create", _land_entry(p), path)
        elif event == "os.mkdir":
            if args[0] is not None and not isinstance(args[0], int):
                land = _land_entry(args[0])
                if not os.path.lexists(land):  # mkdir of something that exists fails with EEXIST and changes nothing
                    _note("mkdir", land, args[0])
        elif event in ("os.rmdir", "os.remove"):
            if args[0] is not None and not isinstance(args[0], int):
                land = _land_entry(args[0])
                if os.path.lexists(land):
                    _note(event[3:], land, args[0])
        elif event == "os.symlink":
            land = _land_entry(args[1])
            if not os.path.lexists(land):
                _note("symlink", land, args[1])
        elif event == "os.link":
            land = _land_entry(args[1])
            if not os.path.lexists(land):
                _note("link", land, args[1])
        elif event == "os.rename":
            _note("rename-from", _land_entry(args[0]), args[0])
            _note("rename-to", _land_entry(args[1]), args[1])
        elif event in ("os.chmod", "os.utime", "os.truncate", "os.chown"):
            if args[0] is not None and not isinstance(args[0], int):
                _note(event[3:], _land_follow(args[0]), args[0])
    except PermissionError:
        raise
    except Exception:
        # the monitor itself must never change the behaviour of the code under test
        return


def install():
    if not _INSTALLED[0]:
        sys.addaudithook(_hook)
        _INSTALLED[0] = True


class Jail:
    """with Jail(root, jail) as j: ... ; j.escapes, j.vetoed, j.events afterwards."""

    def __init__(self, root, jail):
        self.root = os.path.realpath(root)
        self.jail = os.path.realpath(jail)

    def __enter__(self):
        install()
        _STATE.update(active=True, jail=self.jail, root=self.root, events=[], escapes=[], vetoed=[])
        return self

    def __exit__(self, *exc):
        _STATE["active"] = False
        self.events = list(_STATE["events"])
        self.escapes = list(_STATE["escapes"])
        self.vetoed = list(_STATE["vetoed"])
        return False


def snapshot(top, exclude=None):
    """path -> (kind, size, content digest, mode, mtime_ns, link target) for everything under ``top`` except ``exclude``."""
    out = {}
    exclude = os.path.realpath(exclude) if exclude else None
    for dp, dn, fn in os.walk(top):
        if exclude and (dp == exclude or dp.startswith(exclude + "/")):
            dn[:] = []
            continue
        dn[:] = [d for d in dn if not (exclude and os.path.join(dp, d) == exclude)]
        for name in dn + fn + ([] if dp != top else []):
            p = os.path.join(dp, name)
            st = os.lstat(p)
            rel = os.path.relpath(p, top)
            if stat.S_ISLNK(st.st_mode):
                out[rel] = ("link", 0, None, None, None, os.readlink(p))
            elif stat.S_ISDIR(st.st_mode):
                out[rel] = ("dir", 0, None, stat.S_IMODE(st.st_mode), st.st_mtime_ns, None)
            else:
                with open(p, "rb") as f:
                    h = hashlib.sha256(f.read()).hexdigest()[:16]
                out[rel] = ("file", st.st_size, h, stat.S_IMODE(st.st_mode), st.st_mtime_ns, None)
    # the jail directory entry itself (mode / mtime of the jail may change legitimately)
    return out
