"""Simulated storage: SimFS (namespace of in-memory files), SimRaw (raw device with an I/O trace),
crash-image reconstruction and at-rest corruption.  See DESIGN.md 2.2.

py7zr reaches it through the seam ``py7zr.py7zr.open`` (rebound to ``SimFS.open``) or by being handed a
``SimRaw`` / ``io.BufferedRandom(SimRaw)`` object as its ``file`` argument.  CPython's own buffered layer is
kept real; only the raw device is simulated.
"""
import errno
import io
import os


class SimFile:
    """The durable bytes of one simulated file plus the ordered trace of every device operation on it."""

    __slots__ = ("path", "data", "trace", "mirror", "opens")

    def __init__(self, path, data=b"", mirror=None):
        self.path = path
        self.data = bytearray(data)
        self.trace = []  # (kind, offset, payload) ; kind in r,w,t,o(pen),c(lose)
        self.mirror = mirror  # real path kept in sync on request (for os.stat users)
        self.opens = 0

    def snapshot(self) -> bytes:
        return bytes(self.data)

    def sync_mirror(self):
        if self.mirror is not None:
            with io.open(self.mirror, "wb") as f:
                f.write(self.data)


class SimRaw(io.RawIOBase):
    """Raw, unbuffered device over a SimFile.  Every operation is one trace entry and one hook call."""

    def __init__(self, simfile: SimFile, readable=True, writable=False, append_pos=None, hook=None, handle_id=0, anonymous=False):
        super().__init__()
        self._anonymous = anonymous  # like io.BytesIO: a stream that has no name a second handle could be opened by
        self._f = simfile
        self._pos = 0 if append_pos is None else append_pos
        self._r = readable
        self._w = writable
        self._hook = hook  # hook(dev, kind, offset, size) -> None ; may raise / yield / corrupt
        self.handle_id = handle_id
        self.mode = "rb+" if (readable and writable) else ("wb" if writable else "rb")
        simfile.opens += 1
        simfile.trace.append(("o", handle_id, self.mode))

    # -- identity -------------------------------------------------------
    @property
    def name(self):
        if self._anonymous:
            raise AttributeError("name")
        return self._f.path

    @property
    def simfile(self):
        return self._f

    def readable(self):
        return self._r

    def writable(self):
        return self._w

    def seekable(self):
        return True

    def fileno(self):
        raise io.UnsupportedOperation("simulated device has no descriptor")

    def isatty(self):
        return False

    # -- I/O --------------------------------------------------------------
    def readinto(self, b):
        if self.closed:
            raise ValueError("I/O operation on closed file")
        if not self._r:
            raise io.UnsupportedOperation("not readable")
        n = len(b)
        if self._hook is not None:
            self._hook(self, "r", self._pos, n)
        chunk = self._f.data[self._pos : self._pos + n]
        k = len(chunk)
        b[:k] = chunk
        self._f.trace.append(("r", self._pos, k))
        self._pos += k
        return k

    def write(self, b):
        if self.closed:
            raise ValueError("I/O operation on closed file")
        if not self._w:
            raise io.UnsupportedOperation("not writable")
        data = bytes(b)
        if self._hook is not None:
            self._hook(self, "w", self._pos, len(data))
        d = self._f.data
        if self._pos > len(d):
            d.extend(bytes(self._pos - len(d)))
        d[self._pos : self._pos + len(data)] = data
        self._f.trace.append(("w", self._pos, data))
        self._pos += len(data)
        return len(data)

    def seek(self, offset, whence=0):
        if self.closed:
            raise ValueError("I/O operation on closed file")
        if whence == 0:
            p = offset
        elif whence == 1:
            p = self._pos + offset
        elif whence == 2:
            p = len(self._f.data) + offset
        else:
            raise ValueError("bad whence")
        if p < 0:
            raise OSError(errno.EINVAL, "Invalid argument")
        self._pos = p
        return p

    def tell(self):
        return self._pos

    def truncate(self, size=None):
        if not self._w:
            raise io.UnsupportedOperation("not writable")
        if size is None:
            size = self._pos
        if self._hook is not None:
            self._hook(self, "t", size, 0)
        d = self._f.data
        if size < len(d):
            del d[size:]
        else:
            d.extend(bytes(size - len(d)))
        self._f.trace.append(("t", size, None))
        return size

    def close(self):
        if not self.closed:
            self._f.trace.append(("c", self.handle_id, None))
        super().close()


class SimFS:
    """Namespace path -> SimFile; ``open`` has the signature py7zr expects from the builtin."""

    def __init__(self, hook=None, buffer_size=None):
        self.files = {}
        self.hook = hook
        self.buffer_size = buffer_size or io.DEFAULT_BUFFER_SIZE
        self._handles = 0
        self.open_log = []  # (path, mode) in order

    def add(self, path, data=b"", mirror=False):
        path = os.fspath(path)
        f = SimFile(path, data, mirror=path if mirror else None)
        self.files[path] = f
        if mirror:
            f.sync_mirror()
        return f

    def get(self, path) -> SimFile:
        return self.files[os.fspath(path)]

    def open(self, file, mode="r", *args, **kwargs):
        path = os.fspath(file)
        self.open_log.append((path, mode))
        fault = getattr(self, "open_faults", None)
        if fault and (len(self.open_log) - 1) in fault:
            # scripted fault: this open() of the namespace fails (the file was renamed away, the descriptor table is full, ...)
            e = fault[len(self.open_log) - 1]
            self.open_faults_fired = getattr(self, "open_faults_fired", 0) + 1
            raise OSError(e, os.strerror(e), path)
        m = mode.replace("b", "")
        if "b" not in mode:
            raise ValueError("simulated files are binary only: %r" % mode)
        exists = path in self.files
        if m in ("r", "r+"):
            if not exists:
                raise FileNotFoundError(errno.ENOENT, "No such file or directory", path)
        elif m in ("w", "w+"):
            if exists:
                sf = self.files[path]
                del sf.data[:]
                sf.trace.append(("t", 0, None))
            else:
                self.add(path)
        elif m in ("x", "x+"):
            if exists:
                raise FileExistsError(errno.EEXIST, "File exists", path)
            self.add(path)
        else:
            raise ValueError("unsupported mode %r" % mode)
        sf = self.files[path]
        self._handles += 1
        readable = m in ("r", "r+", "w+", "x+")
        writable = m in ("r+", "w", "w+", "x", "x+")
        raw = SimRaw(sf, readable=readable, writable=writable, hook=self.hook, handle_id=self._handles)
        if readable and writable:
            return io.BufferedRandom(raw, buffer_size=self.buffer_size)
        if writable:
            return io.BufferedWriter(raw, buffer_size=self.buffer_size)
        return io.BufferedReader(raw, buffer_size=self.buffer_size)


# ---------------------------------------------------------------------------
# crash images
# ---------------------------------------------------------------------------
def write_ops(trace):
    """The ordered (offset, data) writes and truncations of a device trace."""
    return [(k, off, payload) for (k, off, payload) in trace if k in ("w", "t")]


def apply_ops(base: bytes, ops, upto_ops=None, partial=None) -> bytes:
    """Image after the first ``upto_ops`` operations of ``ops`` were applied to ``base`` and, if ``partial`` is
    given, the first ``partial`` bytes of operation number ``upto_ops``."""
    d = bytearray(base)
    n = len(ops) if upto_ops is None else upto_ops
    for k, off, payload in ops[:n]:
        _apply(d, k, off, payload)
    if partial is not None and n < len(ops):
        k, off, payload = ops[n]
        if k == "w" and partial > 0:
            _apply(d, "w", off, payload[:partial])
    return bytes(d)


def _apply(d, k, off, payload):
    if k == "w":
        if off > len(d):
            d.extend(bytes(off - len(d)))
        d[off : off + len(payload)] = payload
    elif k == "t":
        if off < len(d):
            del d[off:]
        else:
            d.extend(bytes(off - len(d)))


def crash_images(base: bytes, ops):
    """Yield (label, image) for every crash point of the write stream at byte granularity, plus the
    'last write dropped' and 'last two writes swapped' variants.  label = (op index, bytes of that op done)."""
    d = bytearray(base)
    yield (0, 0, "prefix"), bytes(d)
    for i, (k, off, payload) in enumerate(ops):
        if k == "w":
            if off > len(d):
                d.extend(bytes(off - len(d)))
                yield (i, 0, "gapfill"), bytes(d)
            for j in range(len(payload)):
                if off + j < len(d):
                    d[off + j] = payload[j]
                else:
                    d.append(payload[j])
                yield (i, j + 1, "prefix"), bytes(d)
        else:
            _apply(d, k, off, payload)
            yield (i, 0, "trunc"), bytes(d)
    wr = [i for i, o in enumerate(ops) if o[0] == "w"]
    if len(wr) >= 2:
        # the final write reached the disk but its predecessor did not (reordering of the last two blocks)
        a, b = wr[-2], wr[-1]
        sel = [o for i, o in enumerate(ops) if i != a]
        yield (b, -1, "pred_lost"), apply_ops(base, sel)
    if len(wr) >= 3:
        a = wr[-3]
        sel = [o for i, o in enumerate(ops) if i != a]
        yield (wr[-1], -2, "pred2_lost"), apply_ops(base, sel)


# ---------------------------------------------------------------------------
# corruption at rest
# ---------------------------------------------------------------------------
def flip_bit(img: bytes, byte: int, bit: int) -> bytes:
    d = bytearray(img)
    d[byte] ^= 1 << bit
    return bytes(d)
