"""Own fork-based worker pool (DESIGN.md 2.5): per-case wall-clock watchdog, death-by-signal detection and
attribution to the announced case, respawn.  multiprocessing.Pool is avoided (it waits forever on a dead worker)."""
import faulthandler
import os
import pickle
import resource
import select
import signal
import struct
import sys
import time
import traceback


def _send(fd, obj):
    b = pickle.dumps(obj, protocol=4)
    os.write(fd, struct.pack("<I", len(b)))
    off = 0
    while off < len(b):
        off += os.write(fd, b[off : off + 65536])


def _recv_exact(fd, n):
    buf = b""
    while len(buf) < n:
        c = os.read(fd, n - len(buf))
        if not c:
            raise EOFError
        buf += c
    return buf


def _recv(fd):
    (n,) = struct.unpack("<I", _recv_exact(fd, 4))
    return pickle.loads(_recv_exact(fd, n))


class _Worker:
    def __init__(self, wid, fn, rlimit_as=None, init=None):
        self.wid = wid
        c2p_r, c2p_w = os.pipe()
        p2c_r, p2c_w = os.pipe()
        sys.stdout.flush()
        sys.stderr.flush()
        pid = os.fork()
        if pid == 0:
            try:
                os.close(c2p_r)
                os.close(p2c_w)
                signal.signal(signal.SIGINT, signal.SIG_DFL)
                signal.signal(signal.SIGTERM, signal.SIG_DFL)
                if rlimit_as:
                    resource.setrlimit(resource.RLIMIT_AS, (rlimit_as, rlimit_as))
                os.environ["VERIF_WORKER"] = str(wid)
                if init is not None:
                    init(wid)
                while True:
                    try:
                        job = _recv(p2c_r)
                    except EOFError:
                        break
                    if job is None:
                        break
                    try:
                        res = ("ok", fn(job))
                    except BaseException as e:  # harness error inside a case: report, keep going
                        res = ("harness_error", "%s: %s\n%s" % (type(e).__name__, e, traceback.format_exc()))
                    _send(c2p_w, res)
            finally:
                os._exit(0)
        os.close(c2p_w)
        os.close(p2c_r)
        self.pid = pid
        self.rfd = c2p_r
        self.wfd = p2c_w
        self.job = None
        self.started = 0.0

    def assign(self, job):
        self.job = job
        self.started = time.monotonic()
        _send(self.wfd, job)

    def kill(self):
        try:
            os.kill(self.pid, signal.SIGKILL)
        except ProcessLookupError:
            pass
        self.reap()

    def reap(self):
        for fd in (self.rfd, self.wfd):
            try:
                os.close(fd)
            except OSError:
                pass
        try:
            _, status = os.waitpid(self.pid, 0)
        except ChildProcessError:
            status = 0
        return status

    def stop(self):
        try:
            _send(self.wfd, None)
        except OSError:
            pass
        self.reap()


def run_pool(fn, jobs, nworkers=16, case_timeout=120.0, deadline=None, rlimit_as=None, init=None):
    """Run fn(job) for every job of the iterable in forked workers.  Yields (job, status, payload) where status is
    'ok' (payload = fn's return value), 'harness_error' (payload = traceback text), 'timeout' or 'died'
    (payload = description).  Stops handing out jobs once time.monotonic() > deadline."""
    jobs = iter(jobs)
    workers = []
    exhausted = False

    def next_job():
        nonlocal exhausted
        if exhausted or (deadline is not None and time.monotonic() > deadline):
            exhausted = True
            return None
        try:
            return next(jobs)
        except StopIteration:
            exhausted = True
            return None

    for w in range(nworkers):
        j = next_job()
        if j is None:
            break
        wk = _Worker(w, fn, rlimit_as, init)
        wk.assign(j)
        workers.append(wk)
    try:
        while workers:
            rl, _, _ = select.select([w.rfd for w in workers], [], [], 1.0)
            now = time.monotonic()
            for wk in list(workers):
                if wk.rfd in rl:
                    try:
                        status, payload = _recv(wk.rfd)
                        job = wk.job
                        wk.job = None
                        yield job, status, payload
                    except (EOFError, OSError, pickle.UnpicklingError):
                        job = wk.job
                        st = wk.reap()
                        workers.remove(wk)
                        sig = st & 0x7F
                        yield job, "died", "worker died (wait status %d, signal %d)" % (st, sig)
                        wk = _Worker(wk.wid, fn, rlimit_as, init)
                        workers.append(wk)
                    j = next_job()
                    if j is None:
                        wk.stop()
                        workers.remove(wk)
                    else:
                        wk.assign(j)
                elif wk.job is not None and now - wk.started > case_timeout:
                    job = wk.job
                    wk.kill()
                    workers.remove(wk)
                    yield job, "timeout", "no result within %.0f s wall clock" % case_timeout
                    j = next_job()
                    if j is not None:
                        wk = _Worker(wk.wid, fn, rlimit_as, init)
                        wk.assign(j)
                        workers.append(wk)
    finally:
        for wk in workers:
            wk.kill()
