"""Deterministic simulation kit for py7zr (see /verif/DESIGN.md section 2)."""
