"""Install / remove the rebinding seams of DESIGN.md 1.1.  Nothing in /repo is edited: every seam is a module
attribute looked up at call time and is restored on exit."""
import hashlib
import os
import sys
import types

REPO = os.environ.get("VERIF_REPO", "/repo")


def import_py7zr():
    """Import py7zr from the working tree under $VERIF_REPO (default /repo) and refuse anything else."""
    if "py7zr" not in sys.modules:
        if REPO not in sys.path[:1]:
            sys.path.insert(0, REPO)
    import py7zr
    import py7zr.archiveinfo
    import py7zr.cli
    import py7zr.compressor
    import py7zr.helpers
    import py7zr.py7zr

    real = os.path.realpath(py7zr.__file__)
    if not real.startswith(os.path.realpath(REPO) + os.sep):
        raise RuntimeError("py7zr imported from %s, expected under %s" % (real, REPO))
    return py7zr


class SimClock:
    """Discrete simulated clock.  ``time()`` returns the simulated now and then advances it by ``tick``."""

    def __init__(self, start=1_600_000_000.0, tick=0.0, schedule=None):
        self.now = start
        self.tick = tick
        self.schedule = schedule  # optional callable() -> advance before each read
        self.reads = 0

    def time(self):
        self.reads += 1
        if self.schedule is not None:
            self.now += self.schedule()
        t = self.now
        self.now += self.tick
        return t

    def sleep(self, d):
        self.now += d


class _TimeProxy(types.ModuleType):
    """Stands in for the ``time`` module inside py7zr: ``time()`` is simulated, everything else is real."""

    def __init__(self, clock, real):
        super().__init__("time")
        self._clock = clock
        self._real = real

    def time(self):
        return self._clock.time()

    def __getattr__(self, name):
        return getattr(object.__getattribute__(self, "_real"), name)


class SimRandom:
    """Seeded replacement for Cryptodome.Random.get_random_bytes; records every draw."""

    def __init__(self, rng):
        self.rng = rng
        self.draws = []

    def __call__(self, n):
        b = self.rng.getrandbits(8 * n).to_bytes(n, "little") if n else b""
        self.draws.append(b)
        return b


_KDF_MEMO = {}
_ABSENT = object()


def _memo_kdf(real):
    def calculate_key(password, cycles, salt, digest):
        k = (bytes(password), cycles, bytes(salt), digest)
        v = _KDF_MEMO.get(k)
        if v is None:
            v = real(password, cycles, salt, digest)
            if len(_KDF_MEMO) < 4096:
                _KDF_MEMO[k] = v
        return v

    calculate_key.__wrapped__ = real
    return calculate_key


import threading as _threading


class InlineThread:
    """Stands in for threading.Thread inside py7zr when a run wants the degenerate schedule 'every worker runs to
    completion at start()': worker threads execute synchronously in the caller's thread (so the step counter sees
    them); daemon threads (the progress reporter) stay real threads."""

    uncaught = 0  # exceptions that died with their (inline) thread, for the evidence

    def __new__(cls, *args, **kwargs):
        if kwargs.get("daemon"):
            return _threading.Thread(*args, **kwargs)
        return super().__new__(cls)

    def __init__(self, target=None, args=(), kwargs=None, daemon=None, name=None):
        self._target, self._args, self._kwargs = target, args, kwargs or {}

    def start(self):
        # as in a real thread, an exception that leaves the thread's body ends that thread only: it never reaches the code
        # that started it (harness conditions - step / memory budgets - are BaseExceptions and do pass)
        try:
            self._target(*self._args, **self._kwargs)
        except Exception:
            InlineThread.uncaught += 1

    def join(self, timeout=None):
        return None

    def is_alive(self):
        return False


class Seams:
    """Context manager.  knobs: blocksize, memlimit; fs: SimFS or None; clock: SimClock or None;
    rand: SimRandom or None; extra: list of (object, attribute, value)."""

    def __init__(self, fs=None, blocksize=None, memlimit=None, clock=None, rand=None, kdf_memo=True, extra=(),
                 inline_threads=False):
        self.inline_threads = inline_threads
        self.fs = fs
        self.blocksize = blocksize
        self.memlimit = memlimit
        self.clock = clock
        self.rand = rand
        self.kdf_memo = kdf_memo
        self.extra = list(extra)
        self._saved = []

    def _set(self, obj, name, value):
        self._saved.append((obj, name, obj.__dict__.get(name, _ABSENT) if hasattr(obj, "__dict__") else getattr(obj, name)))
        setattr(obj, name, value)

    def __enter__(self):
        import_py7zr()
        import py7zr.compressor as C
        import py7zr.helpers as H
        import py7zr.py7zr as P

        if self.fs is not None:
            self._set(P, "open", self.fs.open)
        if self.blocksize is not None:
            bs = self.blocksize
            self._set(P, "get_default_blocksize", lambda: bs)
            self._set(C, "get_default_blocksize", lambda: bs)
        if self.memlimit is not None:
            ml = self.memlimit
            self._set(P, "get_memory_limit", lambda: ml)
        if self.clock is not None:
            import time as real_time

            self._set(P, "time", _TimeProxy(self.clock, real_time))
            self._set(H, "_time", _TimeProxy(self.clock, real_time))
        if self.rand is not None:
            self._set(C, "get_random_bytes", self.rand)
        if self.kdf_memo:
            real = C.calculate_key
            if not hasattr(real, "__wrapped__"):
                self._set(C, "calculate_key", _memo_kdf(real))
        if self.inline_threads:
            self._set(P, "Thread", InlineThread)
        for obj, name, value in self.extra:
            self._set(obj, name, value)
        return self

    def __exit__(self, *exc):
        for obj, name, value in reversed(self._saved):
            if value is _ABSENT:
                delattr(obj, name)
            else:
                setattr(obj, name, value)
        self._saved = []
        return False


def digest_of(obj) -> str:
    import json

    return hashlib.sha256(json.dumps(obj, sort_keys=True, default=_jsonable).encode()).hexdigest()


def _jsonable(o):
    if isinstance(o, (bytes, bytearray)):
        return hashlib.sha256(bytes(o)).hexdigest()[:16] + ":%d" % len(o)
    if isinstance(o, (set, frozenset)):
        return sorted(o)
    if isinstance(o, tuple):
        return list(o)
    return repr(o)
