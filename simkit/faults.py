"""Fault-injecting sources: FaultPath (a pathlib.PosixPath whose lstat/stat/open and the reader it returns can raise a
scripted OSError) and FaultBio (a BufferedIOBase for writef).  DESIGN.md 1.1 / 2.6."""
import errno
import io
import os
import pathlib


class FaultPlan:
    """path string -> fault spec {"lstat": errno, "open": errno, "read_after": k, "read_errno": errno}; plus access log."""

    def __init__(self):
        self.specs = {}
        self.log = []  # (event, path)
        self.fired = []

    def spec(self, p):
        return self.specs.get(str(p))


PLAN = FaultPlan()


class FaultReader(io.RawIOBase):
    def __init__(self, raw, path, after, err):
        super().__init__()
        self._raw = raw
        self._path = path
        self._left = after
        self._err = err

    def readable(self):
        return True

    def readinto(self, b):
        if self._left <= 0:
            PLAN.fired.append(("read", self._path))
            raise OSError(self._err, os.strerror(self._err), self._path)
        n = min(len(b), self._left)
        data = self._raw.read(n)
        b[: len(data)] = data
        self._left -= len(data)
        if len(data) == 0:
            return 0
        return len(data)

    def close(self):
        self._raw.close()
        super().close()


def _raise(err, path):
    """An errno raises the OSError the kernel would; the name of an exception class raises that: not every way a source can
    fail to open is an OSError (os.lstat/open raise ValueError('embedded null byte') for a path with a NUL in it)."""
    if err == "ValueError":
        raise ValueError("embedded null byte")
    raise OSError(err, os.strerror(err), path)


class FaultPath(pathlib.PosixPath):
    """Keeps its class through joinpath()/with_segments, so writeall walks a whole tree through FaultPath."""

    def lstat(self):
        PLAN.log.append(("lstat", str(self)))
        s = PLAN.spec(self)
        if s and s.get("lstat"):
            PLAN.fired.append(("lstat", str(self)))
            _raise(s["lstat"], str(self))
        return super().lstat()

    def stat(self, *, follow_symlinks=True):
        s = PLAN.spec(self)
        if s and s.get("lstat") and not follow_symlinks:
            PLAN.log.append(("lstat", str(self)))
            PLAN.fired.append(("lstat", str(self)))
            _raise(s["lstat"], str(self))
        return super().stat(follow_symlinks=follow_symlinks)

    def open(self, mode="r", buffering=-1, encoding=None, errors=None, newline=None):
        PLAN.log.append(("open", str(self)))
        s = PLAN.spec(self)
        if s and s.get("open"):
            PLAN.fired.append(("open", str(self)))
            _raise(s["open"], str(self))
        f = super().open(mode, buffering, encoding, errors, newline)
        if s and s.get("read_after") is not None:
            return io.BufferedReader(FaultReader(f, str(self), s["read_after"], s.get("read_errno", errno.EIO)), buffer_size=16)
        return f


class FaultBio(io.BufferedIOBase):
    """Binary source for writef: seekable, reports its size, raises after ``after`` bytes were read."""

    def __init__(self, data: bytes, after=None, err=errno.EIO):
        self._b = io.BytesIO(data)
        self._after = after
        self._err = err
        self._served = 0
        self.fired = False

    def readable(self):
        return True

    def seekable(self):
        return True

    def seek(self, off, whence=0):
        return self._b.seek(off, whence)

    def tell(self):
        return self._b.tell()

    def read(self, n=-1):
        if self._after is not None and self._served >= self._after:
            self.fired = True
            raise OSError(self._err, os.strerror(self._err))
        if self._after is not None and n is not None and n >= 0:
            n = min(n, self._after - self._served)
        elif self._after is not None:
            n = self._after - self._served
        d = self._b.read(n)
        self._served += len(d)
        return d

    def read1(self, n=-1):
        return self.read(n)
