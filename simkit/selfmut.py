"""./check selftest-mutants [ids...] : sensitivity self-test.  Every kept seeded change under /verif/seeded/<id>/ whose
meta.json names a catching check is applied to a scratch copy of /repo (VERIF_REPO), the named check's quick tier must exit 1
with a VIOLATION line; the copy is deleted afterwards."""
import json
import os
import subprocess
import sys

HERE = os.path.dirname(os.path.dirname(os.path.abspath(__file__)))


def main(args):
    root = os.path.join(HERE, "seeded")
    names = [a for a in args] or sorted(n for n in os.listdir(root) if os.path.exists(os.path.join(root, n, "meta.json")))
    bad = 0
    for n in names:
        meta = json.load(open(os.path.join(root, n, "meta.json")))
        prop = meta.get("caught_by")
        if not prop:
            print("%s: recorded as missed by the quick tier (%s)" % (n, meta.get("status")))
            continue
        p = subprocess.run([os.path.join(HERE, "tools", "mut.sh"), os.path.join(root, n, "patch.diff"), prop, "quick"], capture_output=True, text=True, timeout=3000)
        ok = p.returncode == 1 and "VIOLATION property=%s" % prop in p.stdout
        if "saving rejects to file" in p.stdout + p.stderr or "can't find file to patch" in p.stdout + p.stderr or "does not apply" in p.stdout + p.stderr:
            print("%s: patch no longer applies to /repo's working tree" % n)
            bad += 1
            continue
        print("%s: %s by %s quick" % (n, "caught" if ok else "NOT CAUGHT", prop))
        if not ok:
            bad += 1
    print("selftest-mutants: %d seeded changes, %d not caught" % (len(names), bad))
    return 1 if bad else 0
