"""Virtual CPU: count 'line' trace events inside py7zr frames; abort a call that exceeds its step budget.
DESIGN.md 2.4.  Deterministic and machine independent (unlike wall-clock timeouts)."""
import os
import sys
import threading

from .seams import REPO

_PREFIX = os.path.join(os.path.realpath(REPO), "py7zr") + os.sep


class StepBudgetExceeded(BaseException):
    """Raised from the tracer into the spinning frame (BaseException: py7zr only catches Exception)."""


class MemBudgetExceeded(BaseException):
    pass


def _rss_pages():
    with open("/proc/self/statm") as f:
        return int(f.read().split()[1])


class StepCounter:
    """with StepCounter(budget) as sc: ... ; sc.steps afterwards.  budget=None only counts."""

    def __init__(self, budget=None, mem_budget_bytes=None, exclude=("_calculate_key1", "_calculate_key2", "_calculate_key3")):
        self.budget = budget
        self.steps = 0
        self.exclude = set(exclude)
        self.mem_budget = mem_budget_bytes
        self._base_rss = None
        self._prev = None
        self.tripped = False
        self.where = None

    def _global(self, frame, event, arg):
        co = frame.f_code
        if co.co_filename.startswith(_PREFIX) and co.co_name not in self.exclude:
            return self._local
        return None

    def _local(self, frame, event, arg):
        if event == "line":
            self.steps += 1
            if self.budget is not None and self.steps > self.budget:
                self.tripped = True
                self.budget = None  # raise once; let the stack unwind
                self.where = "%s:%d in %s" % (os.path.basename(frame.f_code.co_filename), frame.f_lineno, frame.f_code.co_name)
                raise StepBudgetExceeded(self.steps, self.where)
            if self.mem_budget is not None and self.steps % 2000 == 0:
                if (_rss_pages() - self._base_rss) * 4096 > self.mem_budget:
                    self.tripped = True
                    self.mem_budget = None
                    raise MemBudgetExceeded(self.steps)
        return self._local

    def __enter__(self):
        if self.mem_budget is not None:
            self._base_rss = _rss_pages()
        self._prev = sys.gettrace()
        sys.settrace(self._global)
        return self

    def __exit__(self, *exc):
        sys.settrace(self._prev)
        return False
