"""./check selftest-determinism [IDs...] : same seed twice in one process, once more in a fresh interpreter under another
PYTHONHASHSEED, and at another worker count; the per-run digests (device traces, scheduler decisions, callback histories,
verdicts) must be identical.  C20's RSS numbers are excluded by construction (its digest holds no measurement)."""
import importlib
import json
import os
import subprocess
import sys

from .prng import Rng

DEFAULT = ["C01", "C02", "C03", "C04", "C05", "C06", "C07", "C08", "C09", "C10", "C11", "C12", "C13", "C14", "C15", "C18", "C19"]
N = {"C04": 3, "C14": 12, "C20": 0}


def digests(prop, seed, indices):
    mod = importlib.import_module("props.%s" % prop.lower())
    out = {}
    for i in indices:
        case = mod.gen_case(Rng(seed, prop, i), i, "quick")
        r = mod.run_case(case)
        out[str(i)] = [r.get("digest"), len(r.get("violations", []))]
    return out


def main(args):
    if args and args[0] == "--child":
        prop, seed, idx = args[1], int(args[2]), json.loads(args[3])
        print("DIGESTS " + json.dumps(digests(prop, seed, idx), sort_keys=True))
        return 0
    props = [a.upper() for a in args] or DEFAULT
    seed = 424242
    bad = 0
    total = 0
    here = os.path.dirname(os.path.dirname(os.path.abspath(__file__)))
    for prop in props:
        n = N.get(prop, 40)
        if not n:
            continue
        idx = list(range(n))
        a = digests(prop, seed, idx)
        b = digests(prop, seed, idx)
        env = dict(os.environ, PYTHONHASHSEED="12345")
        for attempt in range(3):
            p = subprocess.run([sys.executable, os.path.join(here, "vcheck.py"), "selftest-determinism", "--child", prop, str(seed), json.dumps(idx)],
                               capture_output=True, text=True, env=env, timeout=1800)
            if p.returncode >= 0:
                break
            # killed by a signal: the interpreter crashes listed as dependency findings (pyppmd) also hit this child; a child that
            # did not finish has no digests to compare, so it is run again
            print("%s: fresh interpreter died with signal %d before printing its digests (attempt %d) - run again" % (prop, -p.returncode, attempt + 1))
        line = [ln for ln in p.stdout.splitlines() if ln.startswith("DIGESTS ")]
        c = json.loads(line[0][8:]) if line else {}
        diff_same = [i for i in a if a[i] != b[i]]
        diff_fresh = [i for i in a if a[i] != c.get(i)]
        none = [i for i in a if a[i][0] is None]
        total += n
        status = "ok" if not (diff_same or diff_fresh or none) else "DIFFERS"
        print("%s: %d runs x3 (same process twice, fresh interpreter PYTHONHASHSEED=12345): %s%s%s" % (
            prop, n, status, " same-process diffs %r" % diff_same[:5] if diff_same else "", " fresh-interpreter diffs %r" % diff_fresh[:5] if diff_fresh else ""))
        if status != "ok":
            bad += 1
            if p.returncode != 0:
                print(p.stderr[-600:])
    print("selftest-determinism: %d properties, %d runs, %d with differing digests" % (len(props), total, bad))
    return 1 if bad else 0
