"""Seeded directory trees on the real scratch filesystem: recipe, materialisation, expected archive members for
``writeall``, and lstat/readlink/bytes snapshots for comparison (C02, C08, C15, C19)."""
import os
import posixpath
import stat

from . import gen

FILETIME_EPOCH = 116444736000000000
ROOT_MTIME_NS = 1_500_000_000_123_456_700


def gen_tree(rng, maxdepth=5, nmax=10, name_style=None, links=True, block=32768, maxlen=20000, deref_safe=False, coincide=False):
    """Recipe: list of entries in creation order (parents first).  Paths are relative, '/'-separated."""
    entries = []
    dirs = [""]
    files = []
    used = set()
    n = rng.randint(1, nmax)

    def fresh(parent):
        for _ in range(50):
            c = gen.gen_component(rng, name_style)
            if len(c.encode("utf-8")) > 120:
                c = c[:20]
            p = posixpath.join(parent, c) if parent else c
            if p not in used and c not in (".", ".."):
                used.add(p)
                return p
        return None

    for _ in range(n):
        parent = rng.pick(dirs)
        depth = parent.count("/") + 1 if parent else 0
        kind = rng.wpick([(3, "dir"), (6, "file"), (2 if links else 0, "link")])
        if kind == "dir" and depth >= maxdepth:
            kind = "file"
        p = fresh(parent)
        if p is None:
            continue
        if kind == "dir":
            entries.append({"path": p, "kind": "dir", "mode": rng.pick([0o500, 0o555, 0o700, 0o711, 0o750, 0o755, 0o775, 0o777]),
                            "mtime_ns": gen_mtime_ns(rng)})
            dirs.append(p)
        elif kind == "file":
            rc = gen.gen_content(rng, block=block, maxlen=maxlen)
            entries.append({"path": p, "kind": "file", "content": rc, "mode": rng.pick([0o400, 0o444, 0o600, 0o640, 0o644, 0o664, 0o666, 0o700, 0o755, 0o777]),
                            "mtime_ns": gen_mtime_ns(rng)})
            files.append(p)
        else:
            cands = []
            here = posixpath.dirname(p)
            for f in files:
                cands.append(posixpath.relpath(f, here or "."))
            for d in dirs:
                if d == "":
                    continue
                if deref_safe and (p.startswith(d + "/") or d == here):
                    continue  # would create a cycle when followed
                cands.append(posixpath.relpath(d, here or "."))
            if not deref_safe and here:
                cands.append("..")  # upward but inside
            cands = [c for c in cands if c not in (".",)]
            if not cands:
                used.discard(p)
                continue
            text = rng.pick(cands)
            if coincide:
                # the same referent spelled less canonically: through a real sibling directory and back, a leading './',
                # a trailing '/.' - the text is what has to survive the round trip, not a normalised form of it
                sib = [posixpath.basename(d) for d in dirs if d and posixpath.dirname(d) == here]
                how = rng.wpick([(6, "plain"), (2, "via"), (1, "dot"), (1, "slashdot")])
                if how == "via" and sib:
                    text = rng.pick(sib) + "/../" + text
                elif how == "dot":
                    text = "./" + text
                elif how == "slashdot" and text.split("/")[-1] not in ("..",) and any(posixpath.normpath(posixpath.join(here, text)) == d for d in dirs):
                    text = text + "/."
            entries.append({"path": p, "kind": "link", "target": text})
    top = [e["path"] for e in entries if "/" not in e["path"]]
    if coincide and top and len(dirs) > 1 and rng.chance(0.3):
        # a link whose text, read from the tree root (or from the root's parent, 'src/...') instead of from the link's own
        # directory, spells the path of a different entry: D/c exists next to the link D/l -> c, and so does the top-level c
        c = rng.pick(top)
        d = rng.pick(dirs[1:])
        via_src = rng.chance(0.4)
        base = posixpath.join(d, "src") if via_src else d
        tgt, lnk = posixpath.join(base, c), fresh(d)
        if tgt not in used and base not in used and lnk is not None and d.count("/") + 2 < maxdepth:
            if via_src:
                used.add(base)
                entries.append({"path": base, "kind": "dir", "mode": 0o755, "mtime_ns": gen_mtime_ns(rng)})
            used.add(tgt)
            entries.append({"path": tgt, "kind": "file", "content": gen.gen_content(rng, block=block, maxlen=200), "mode": 0o644, "mtime_ns": gen_mtime_ns(rng)})
            entries.append({"path": lnk, "kind": "link", "target": posixpath.join("src", c) if via_src else c})
    if deref_safe:
        # with dereference a link to a directory is followed: keep only such links whose referent subtree holds no link
        # at all, so that the walk is finite and acyclic (mutual cycles A/x -> B, B/y -> A would never end)
        linkpaths = [e["path"] for e in entries if e["kind"] == "link"]
        kinds = {e["path"]: e["kind"] for e in entries}
        keep = []
        for e in entries:
            if e["kind"] == "link":
                tgt = posixpath.normpath(posixpath.join(posixpath.dirname(e["path"]), e["target"]))
                if kinds.get(tgt) == "dir" and any(lp.startswith(tgt + "/") for lp in linkpaths):
                    continue
            keep.append(e)
        entries = keep
    return entries


def gen_mtime_ns(rng):
    """1970..2100 with sub-second parts; FILETIME resolution (100 ns)."""
    kind = rng.wpick([(5, "recent"), (2, "old"), (2, "future"), (1, "epoch")])
    if kind == "recent":
        s = rng.randint(946684800, 1900000000)
    elif kind == "old":
        s = rng.randint(1, 946684800)
    elif kind == "future":
        s = rng.randint(1900000000, 4102444800)
    else:
        s = rng.pick([0, 1, 2])
    frac = rng.wpick([(1, 0), (3, rng.randrange(10**7) * 100), (1, 999999900), (1, 500000000), (1, 100)])
    return s * 10**9 + frac


def build_tree(root, entries):
    os.makedirs(root, exist_ok=True)
    for e in entries:
        p = os.path.join(root, e["path"])
        if e["kind"] == "dir":
            os.mkdir(p)
        elif e["kind"] == "file":
            with open(p, "wb") as f:
                f.write(gen.materialize(e["content"]))
        else:
            os.symlink(e["target"], p)
    # modes and times last, deepest first, so that read-only directories do not block creation
    for e in sorted(entries, key=lambda e: -e["path"].count("/")):
        p = os.path.join(root, e["path"])
        if e["kind"] == "link":
            continue
        os.chmod(p, e["mode"])
    for e in sorted(entries, key=lambda e: -e["path"].count("/")):
        if e["kind"] == "link":
            continue
        p = os.path.join(root, e["path"])
        os.utime(p, ns=(e["mtime_ns"], e["mtime_ns"]))
    for e in entries:
        if e["kind"] == "link":
            # a link's own lstat times are archived too: fix them (the wall clock must not reach the archive bytes)
            os.utime(os.path.join(root, e["path"]), ns=(ROOT_MTIME_NS, ROOT_MTIME_NS), follow_symlinks=False)
    # creating links touched their parent directories: set the directory times again, deepest first
    for e in sorted(entries, key=lambda e: -e["path"].count("/")):
        if e["kind"] == "dir":
            os.utime(os.path.join(root, e["path"]), ns=(e["mtime_ns"], e["mtime_ns"]))
    # the root itself becomes a member of the archive (writeall): give it a fixed mode and time, not the wall clock's
    os.chmod(root, 0o755)
    os.utime(root, ns=(ROOT_MTIME_NS, ROOT_MTIME_NS))


def make_removable(root):
    for dp, dn, fn in os.walk(root):
        try:
            os.chmod(dp, 0o700)
        except OSError:
            pass


def snapshot(root):
    """relpath -> (kind, payload, mode, mtime_ns) by lstat/readlink/read_bytes."""
    out = {}
    for dp, dn, fn in os.walk(root):
        for name in dn + fn:
            p = os.path.join(dp, name)
            rel = os.path.relpath(p, root)
            st = os.lstat(p)
            if stat.S_ISLNK(st.st_mode):
                out[rel] = ("link", os.readlink(p), None, None)
            elif stat.S_ISDIR(st.st_mode):
                out[rel] = ("dir", None, stat.S_IMODE(st.st_mode), st.st_mtime_ns)
            else:
                with open(p, "rb") as f:
                    out[rel] = ("file", f.read(), stat.S_IMODE(st.st_mode), st.st_mtime_ns)
        # os.walk does not descend into symlinked directories (followlinks=False): intended
    return out


def expected_snapshot(entries, deref=False):
    """What extraction of a faithful archive of the tree must produce (same shape as snapshot())."""
    byp = {e["path"]: e for e in entries}
    out = {}

    def resolve(path, target):
        return posixpath.normpath(posixpath.join(posixpath.dirname(path), target))

    for e in entries:
        if e["kind"] == "dir":
            out[e["path"]] = ("dir", None, e["mode"], e["mtime_ns"])
        elif e["kind"] == "file":
            out[e["path"]] = ("file", gen.materialize(e["content"]), e["mode"], e["mtime_ns"])
        elif not deref:
            out[e["path"]] = ("link", e["target"], None, None)
    if deref:
        def expand(linkpath, refpath):
            ref = byp.get(refpath)
            if ref is None:
                return
            if ref["kind"] == "link":
                expand(linkpath, resolve(ref["path"], ref["target"]))
            elif ref["kind"] == "file":
                out[linkpath] = ("file", gen.materialize(ref["content"]), ref["mode"], ref["mtime_ns"])
            else:
                out[linkpath] = ("dir", None, ref["mode"], ref["mtime_ns"])
                for c in entries:
                    if posixpath.dirname(c["path"]) == ref["path"]:
                        child = posixpath.join(linkpath, posixpath.basename(c["path"]))
                        if c["kind"] == "link":
                            expand(child, resolve(c["path"], c["target"]))
                        elif c["kind"] == "file":
                            out[child] = ("file", gen.materialize(c["content"]), c["mode"], c["mtime_ns"])
                        else:
                            expand(child, c["path"])
        for e in entries:
            if e["kind"] == "link":
                expand(e["path"], resolve(e["path"], e["target"]))
    return out


def writeall_order(entries, arcroot, include_root=True, deref=False):
    """Member list py7zr's documented walk produces for writeall(root, arcname=arcroot): the directory itself,
    then its children in sorted(os.listdir) order, depth first.  Returns [(name, kind, payload)]."""
    children = {}
    byp = {}
    for e in entries:
        children.setdefault(posixpath.dirname(e["path"]), []).append(e)
        byp[e["path"]] = e
    out = []

    def walk(dirpath, arc):
        for e in sorted(children.get(dirpath, []), key=lambda e: posixpath.basename(e["path"])):
            nm = posixpath.join(arc, posixpath.basename(e["path"]))
            if e["kind"] == "dir":
                out.append((nm, "dir", None))
                walk(e["path"], nm)
            elif e["kind"] == "file":
                out.append((nm, "file", gen.materialize(e["content"])))
            else:
                out.append((nm, "link", e["target"]))

    if include_root:
        out.append((arcroot, "dir", None))
    walk("", arcroot)
    return out


def to_filetime(ns):
    return ns // 100 + FILETIME_EPOCH
