"""One PRNG discipline: every choice of a run derives from (VERIF_SEED, property, run index, label)."""
import hashlib
import random


def _h(*parts) -> int:
    s = "|".join(str(p) for p in parts).encode()
    return int.from_bytes(hashlib.sha256(s).digest()[:8], "big")


class Rng(random.Random):
    """random.Random with labelled, independent sub-streams.  Never seeded from time or os.urandom."""

    def __init__(self, *parts):
        self._parts = parts
        super().__init__(_h(*parts))

    def sub(self, label) -> "Rng":
        return Rng(*self._parts, label)

    def chance(self, p: float) -> bool:
        return self.random() < p

    def pick(self, seq):
        return seq[self.randrange(len(seq))]

    def wpick(self, pairs):
        """pairs: [(weight, value), ...]"""
        tot = sum(w for w, _ in pairs)
        x = self.random() * tot
        for w, v in pairs:
            x -= w
            if x < 0:
                return v
        return pairs[-1][1]

    def bytes_(self, n: int) -> bytes:
        return self.getrandbits(8 * n).to_bytes(n, "little") if n else b""
