"""C07  Writer conformance: every image py7zr leaves after close() is well-formed 7z that an independent reader
accepts.  Checked as a durable-state invariant along the simulated histories of C01/C08 (DESIGN.md 4, C07)."""
import os

from props import hist
from simkit.prng import Rng

PROPERTY = "C07"
ENGINE = "wsim"
LEVEL = "exploration"
RULE = ("case = seeded history of 1..3 create/append sessions (every chain, header mode, password, writestr/writef/write/writeall members incl. "
        "directories, empty files and symlinks); after EVERY close() the device image is parsed by the strict reference reader ref7z: signature "
        "header vs bytes on disk, packed sizes tiling the data area, declared sizes and CRCs vs content, counts between sections, property sizes, "
        "and the recovered members (names, order, bytes, kind, source mtime) vs the model; encrypted archives through ref7z's own 7zAES KDF. "
        "One evaluation = one closed session image. distinct = (chain families, header mode, session index, member-kind mix); non-trivial = image has >= 1 member with data.")
ASSUMPTIONS = ["ref7z's reading of docs/archive_format.rst is the specification oracle; only the five rule families C07 names are enforced, the rest is lint"]
COMPONENTS = {"real": ["py7zr writer", "CPython buffered I/O", "codec libraries"], "stub": ["raw device (SimRaw)", "clock", "AES IV randomness", "knobs"],
              "oracle": ["ref7z strict reader + independent 7zAES KDF"]}


def plan(tier):
    if tier == "thorough":
        return {"n": None, "budget_s": int(os.environ.get("VERIF_BUDGET_S", "900")), "case_timeout": 300}
    return {"n": 1500, "budget_s": 170, "case_timeout": 120}


def gen_case(rng: Rng, i: int, tier: str):
    return hist.gen_history(rng, tier)


def run_case(case):
    res = hist.run_history(case, want_c07=True, want_c08=False)
    res["violations"] = [v for v in res["violations"] if v["prop"] == "C07"]
    for s, nt in list(res["sigs"]):
        pass
    return res


shrink_candidates = hist.shrink_candidates
case_class = hist.case_class
