"""Read-session engine (rsim): seeded archives with a reference model, seeded call sequences over the read API,
per-call oracles for C09 (selective extraction), C10 (listings) and C12 (repeatability / no modification)."""
import copy
import hashlib
import os
import shutil
import zlib

from simkit import driver, gen, rw, tree
from simkit.device import SimFS, SimRaw
from simkit.prng import Rng
from simkit.seams import Seams, SimClock, SimRandom, digest_of, import_py7zr
from simkit.steps import StepBudgetExceeded, StepCounter

import ref7z
from ref7z import codecs as RC

READ_PATH = "/sim/read.7z"


# ---------------------------------------------------------------------------------------------
# archive recipes
# ---------------------------------------------------------------------------------------------
def _names_ok(names):
    s = sorted(names)
    for i, a in enumerate(s):
        for b in s[i + 1:]:
            if not b.startswith(a):
                break
            if b != a and b[len(a)] != "/":
                return False
    return len(set(names)) == len(names)


def _fs_safe_name(n):
    return all(0 < len(c.encode("utf-8")) <= 120 and c not in (".", "..") for c in n.split("/")) and len(n.encode("utf-8")) < 700


def gen_archive(rng: Rng, tier, want_multi=None, want_dirs=None, encrypted=None, maxlen=3000):
    """Recipe of 1..3 write sessions producing a single- or multi-folder archive with an exact model."""
    for attempt in range(50):
        r = rng.sub("arc%d" % attempt)
        knobs = {"block": r.pick([4096, 32768, 1048576]), "chunk": 128000000, "bufsize": 8192}
        nsess = r.wpick([(4, 1), (3, 2), (2, 3)])
        if want_multi is True:
            nsess = max(nsess, 2)
        if want_multi is False:
            nsess = 1
        password = None
        if encrypted is True or (encrypted is None and r.chance(0.25)):
            password = gen.gen_password(r)
        sessions = []
        used = []
        mixed = password is not None and nsess > 1 and r.chance(0.35)
        plain_sessions = set(r.sample(range(nsess), r.randint(1, nsess - 1))) if mixed else set()
        for j in range(nsess):
            s = rw.gen_session(r, "w" if j == 0 else "a", knobs, used, nmax=4, maxlen=maxlen, password=None if j in plain_sessions else password,
                               name_style=r.pick(["ascii", "bmp", "ascii", "dot", None]), safe_prefix=True)
            s["ops"] = [op for op in s["ops"] if _fs_safe_name(op["name"])]
            if mixed and s["header"] == "crypt":
                s["header"] = "enc"
            if want_dirs is True or (want_dirs is None and r.chance(0.4)):
                arc = "d%d%s" % (j, gen.gen_component(r, "ascii"))
                tr = tree.gen_tree(r, maxdepth=3, nmax=6, name_style=r.pick(["ascii", "bmp"]), block=knobs["block"], maxlen=maxlen, links=r.chance(0.5))
                s["ops"].insert(r.randint(0, len(s["ops"])), {"op": "writeall", "name": arc, "tree": tr})
                if r.chance(0.5):
                    # members two or more levels below a directory member whose intermediate directories have no entry
                    for _ in range(r.randint(1, 2)):
                        deep = arc + "/" + "/".join(gen.gen_component(r, "ascii") + "_" for _ in range(r.randint(2, 3)))
                        s["ops"].append({"op": "writestr", "name": deep, "content": gen.gen_content(r, block=knobs["block"], maxlen=maxlen), "as": "bytes"})
            nested = [n for n in used if "/" in n]
            if j > 0 and nested and r.chance(0.35):
                # a member of this session (another folder) next to a member of an earlier one, in a directory that has no
                # entry of its own: whichever worker comes first has to create it
                parent = r.pick(nested).rsplit("/", 1)[0]
                s["ops"].append({"op": "writestr", "name": parent + "/s%d%s" % (j, gen.gen_component(r, "ascii")),
                                 "content": gen.gen_content(r, block=knobs["block"], maxlen=maxlen), "as": "bytes"})
            if r.chance(0.3):
                nm = "w%d%s" % (j, gen.gen_component(r, "ascii"))
                s["ops"].append({"op": "write", "name": nm, "content": gen.gen_content(r, block=knobs["block"], maxlen=maxlen),
                                 "mode": r.pick([0o600, 0o644, 0o755]), "mtime_ns": tree.gen_mtime_ns(r)})
            names = []
            for op in s["ops"]:
                if op["op"] == "writeall":
                    names += [n for n, _, _ in tree.writeall_order(op["tree"], op["name"])]
                else:
                    names.append(op["name"])
            if not _names_ok(used + names):
                break
            used += names
            sessions.append(s)
        else:
            if want_multi is True and sum(1 for s in sessions if any(op["op"] != "writeall" or any(e["kind"] != "dir" for e in op["tree"]) for op in s["ops"])) < 2:
                continue
            return {"sessions": sessions, "knobs": knobs, "rng": r.randrange(1 << 30), "target": "path"}
    return {"sessions": [], "knobs": {"block": 32768, "chunk": 128000000, "bufsize": 8192}, "rng": 1, "target": "path"}


class Built:
    __slots__ = ("image", "model", "password", "ref", "nfolders", "error", "rejected", "opened_without_password", "spurious_password")


def build_archive(recipe) -> Built:
    b = Built()
    b.error = None
    b.rejected = False
    b.password = None
    fs = SimFS(buffer_size=recipe["knobs"]["bufsize"])
    model = []
    try:
        with Seams(fs=fs, blocksize=recipe["knobs"]["block"], memlimit=recipe["knobs"]["chunk"], clock=SimClock(tick=0.001),
                   rand=SimRandom(Rng(recipe["rng"], "iv"))):
            for s in recipe["sessions"]:
                if s.get("password") is not None:
                    b.password = s["password"]
                try:
                    added, err = rw.run_write_session(fs, s, "path", recipe["knobs"]["bufsize"])
                except rw.Rejected:
                    b.rejected = True
                    break
                if err is not None:
                    b.error = err
                    break
                model += added
    finally:
        rw.cleanup_sources()
    b.model = model
    sf = fs.files.get(rw.SIM_PATH)
    b.image = sf.snapshot() if sf is not None else None
    b.ref = None
    b.nfolders = 0
    if b.image is not None and b.error is None:
        try:
            b.ref = ref7z.read(b.image, b.password)
            if b.ref.main and b.ref.main["folders"]:
                b.nfolders = len(b.ref.main["folders"])
        except Exception as e:  # the archive under test must be valid per the reference reader
            b.error = e
    return b


def build_from_ref(refcase) -> Built:
    """Archive produced by the independent reference writer from a C06-style {members, layout} recipe."""
    from props import c06
    from ref7z import writer as W

    b = Built()
    b.error = None
    b.rejected = False
    logical = c06.materialize_members(refcase)
    try:
        b.image = W.build(logical, dict(refcase["layout"]))
        b.password = refcase["layout"].get("password")
        b.ref = ref7z.read(b.image, b.password)
        if ref7z.enforced_issues(b.ref) or b.ref.undecoded:
            b.error = RuntimeError("reference writer self-check failed")
    except Exception as e:
        b.image = None
        b.error = e
        b.ref = None
        b.password = None
    b.model = [rw.Mem(m.name, m.data, m.kind, m.mtime, m.attributes) for m in b.ref.members] if b.ref is not None else []
    b.nfolders = len(b.ref.main["folders"]) if b.ref is not None and b.ref.main and b.ref.main["folders"] else 0
    return b


# ---------------------------------------------------------------------------------------------
# model predictions
# ---------------------------------------------------------------------------------------------
def norm_target(t):
    return t[:-1] if t.endswith("/") else t


def restrict(model, targets, recursive):
    ts = {norm_target(t) for t in targets}
    sel = []
    for m in model:
        if m.name in ts:
            sel.append(m)
        elif recursive and any(m.name.startswith(t + "/") for t in ts):
            sel.append(m)
    return sel


def expected_products(members):
    return {m.name: m.data for m in members if m.kind != "dir"}


def expected_tree(members):
    """relpath -> ('dir',None) | ('file',bytes) | ('link',target) for extraction to a directory, plus parents."""
    out = {}
    for m in members:
        parts = m.name.split("/")
        for i in range(1, len(parts)):
            out.setdefault("/".join(parts[:i]), ("dir", None))
        if m.kind == "dir":
            out[m.name] = ("dir", None)
        elif m.kind == "symlink":
            out[m.name] = ("link", m.data.decode("utf-8"))
        else:
            out[m.name] = ("file", m.data)
    return out


def snapshot_tree(root):
    snap = tree.snapshot(root)
    return {k: (v[0], v[1]) for k, v in snap.items()}


# ---------------------------------------------------------------------------------------------
# call sequences
# ---------------------------------------------------------------------------------------------
DECODING = ("extractall_f", "extractall_p", "extract", "testzip")
OPS = ["getnames", "list", "getinfo", "archiveinfo", "test", "testzip", "extractall_f", "extractall_p", "extract", "reset", "needs_password"]


def gen_targets(r, model, absent_ok=True):
    names = [m.name for m in model]
    if not names:
        return ["nothing"]
    k = r.randint(1, min(4, len(names)))
    ts = r.sample(names, k)
    if absent_ok and r.chance(0.3):
        cands = ["absent", "no/such/member", names[0] + "x", "zz"]
        # an absent name that is a string prefix of a member's name without being one of its parent directories
        n = r.pick(names)
        if len(n) > 1:
            cut = r.randint(1, len(n) - 1)
            pre = n[:cut]
            if pre not in names and n[cut] != "/" and not pre.endswith("/"):
                cands += [pre, pre]
        ts.append(r.pick(cands))
    # a directory that exists only as the prefix of member names (no entry of its own): with recursive it selects what lies beneath
    implicit = sorted({n.rsplit("/", 1)[0] for n in names if "/" in n} - set(names))
    if implicit and r.chance(0.25):
        ts.append(r.pick(implicit))
    ts = [t + "/" if r.chance(0.2) else t for t in ts]
    if absent_ok and r.chance(0.06):
        ts = []  # the empty subset: nothing is selected, nothing may be created
    return ts


def gen_sequence(r, model, maxlen=5, weights=None):
    n = r.randint(1, maxlen)
    seq = []
    decoded = False
    w = weights or {"getnames": 2, "list": 2, "getinfo": 2, "archiveinfo": 2, "test": 2, "testzip": 3, "extractall_f": 3, "extractall_p": 2,
                    "extract": 4, "reset": 2, "needs_password": 1}
    pairs = [(w[k], k) for k in OPS]
    while len(seq) < n:
        op = r.wpick(pairs)
        if op in ("extractall_f", "extractall_p", "extract") and decoded:
            seq.append({"op": "reset"})
            decoded = False
        call = {"op": op}
        if op == "extract":
            call["targets"] = gen_targets(r, model)
            call["recursive"] = r.chance(0.5)
            call["as"] = r.pick(["list", "set"])
            call["sink"] = r.pick(["factory", "path"])
        elif op == "getinfo":
            names = [m.name for m in model]
            call["name"] = (r.pick(names) if names and r.chance(0.7) else "absent/name") + ("/" if r.chance(0.3) else "")
        if op in DECODING:
            decoded = True
        if op == "reset":
            decoded = False
        seq.append(call)
    return seq


# ---------------------------------------------------------------------------------------------
# execution
# ---------------------------------------------------------------------------------------------
class Session:
    """One SevenZipFile read session on a fresh simulated device."""

    def __init__(self, built: Built, open_kind, knobs, mirror_dir=None, password="__model__", mp=False, sched=None):
        py7zr = import_py7zr()
        self.py7zr = py7zr
        hook = None
        if sched is not None:
            def hook(dev, kind, off, n):
                if kind == "r" and sched.current != 0:
                    sched.yield_(("io", dev.handle_id & 0xFF))
        self.fs = SimFS(buffer_size=knobs.get("bufsize", 8192), hook=hook)
        self.path = READ_PATH
        if mirror_dir is not None:
            self.path = os.path.join(mirror_dir, "read.7z")
            self.fs.add(self.path, built.image, mirror=True)
        else:
            self.fs.add(self.path, built.image)
        self.anonymous = open_kind == "anon"
        if sched is not None:
            # py7zr's worker threads are real threads stepped by the baton-passing scheduler instead of running inline
            import py7zr.py7zr as P
            from simkit.sched import SchedTime, make_queue_module, make_thread_class

            extra = [(P, "Thread", make_thread_class(sched)), (P, "queue", make_queue_module(sched)), (P, "time", SchedTime(sched))]
            self.seams = Seams(fs=self.fs, blocksize=knobs.get("block"), memlimit=knobs.get("chunk"), extra=extra)
        else:
            self.seams = Seams(fs=self.fs, blocksize=knobs.get("block"), memlimit=knobs.get("chunk"), inline_threads=True)
        self.seams.__enter__()
        pw = built.password if password == "__model__" else password
        try:
            if open_kind == "path":
                self.z = py7zr.SevenZipFile(self.path, "r", password=pw, mp=mp)
            else:
                self.raw = SimRaw(self.fs.get(self.path), readable=True, anonymous=open_kind == "anon")
                self.z = py7zr.SevenZipFile(self.raw, "r", password=pw, mp=mp)
        except BaseException:
            self.seams.__exit__(None, None, None)
            raise

    def finish(self, how="close"):
        try:
            if how == "ctx":
                self.z.__exit__(None, None, None)
            else:
                self.z.close()
        finally:
            self.seams.__exit__(None, None, None)

    def abandon(self):
        self.seams.__exit__(None, None, None)

    def device_writes(self):
        return [t for t in self.fs.get(self.path).trace if t[0] in ("w", "t")]

    def image(self):
        return self.fs.get(self.path).snapshot()


def do_call(sess: Session, call, outdir):
    """Execute one call; returns a JSON-able/comparable result or raises."""
    z = sess.z
    op = call["op"]
    if op == "getnames":
        return ("names", z.getnames(), z.namelist())
    if op == "list":
        return ("list", [(f.filename, f.compressed, f.uncompressed, f.archivable, f.is_directory, f.creationtime, f.crc32) for f in z.list()])
    if op == "files":
        return ("files", [(f.filename, f.is_directory, f.is_symlink, f.emptystream, f.uncompressed, f.crc32) for f in z.files])
    if op == "getinfo":
        try:
            i = z.getinfo(call["name"])
            return ("info", i.filename, i.uncompressed, i.is_directory, i.crc32)
        except KeyError:
            return ("info", KeyError)
    if op == "archiveinfo":
        if getattr(sess, "anonymous", False):
            # archiveinfo() describes the archive FILE (name, os.stat): a stream without a name has none
            return ("ainfo", "not applicable")
        a = z.archiveinfo()
        return ("ainfo", a.size, a.header_size, sorted(a.method_names), a.solid, a.blocks, a.uncompressed)
    if op == "needs_password":
        return ("needs_password", z.needs_password())
    if op == "test":
        return ("test", z.test())
    if op == "testzip":
        return ("testzip", z.testzip())
    if op == "reset":
        z.reset()
        return ("reset",)
    if op == "extractall_f":
        fac = rw.make_factory()
        z.extractall(factory=fac)
        return ("products", fac.result())
    if op == "extractall_p":
        shutil.rmtree(outdir, ignore_errors=True)
        os.makedirs(outdir)
        z.extractall(path=outdir)
        return ("tree", snapshot_tree(outdir))
    if op == "extract":
        ts = call["targets"]
        targets = set(ts) if call.get("as") == "set" else list(ts)
        if call.get("sink") == "path":
            shutil.rmtree(outdir, ignore_errors=True)
            os.makedirs(outdir)
            z.extract(path=outdir, targets=targets, recursive=call.get("recursive", False))
            return ("tree", snapshot_tree(outdir))
        fac = rw.make_factory()
        z.extract(targets=targets, recursive=call.get("recursive", False), factory=fac)
        return ("products", fac.result())
    raise ValueError(op)


def method_names_expected(ref):
    names = set()
    if ref is not None and ref.main and ref.main["folders"]:
        for f in ref.main["folders"]:
            for c in f["coders"]:
                names.add(RC.NAMES.get(c["id"], c["id"].hex()))
    return names


def predict(call, built: Built):
    """Model prediction for a call on a freshly opened archive (None where the model has no opinion)."""
    model = built.model
    op = call["op"]
    if op == "getnames":
        nm = [m.name for m in model]
        return ("names", nm, nm)
    if op == "needs_password":
        aes = any(c["id"] == RC.M_AES for f in (built.ref.main["folders"] if built.ref and built.ref.main and built.ref.main["folders"] else []) for c in f["coders"])
        supplied = (built.password is not None and not getattr(built, "opened_without_password", False)) or getattr(built, "spurious_password", None) is not None
        return ("needs_password", bool(aes or supplied))
    if op == "test":
        return ("test", (None, True))
    if op == "testzip":
        return ("testzip", None)
    if op == "reset":
        return ("reset",)
    if op == "extractall_f":
        return ("products", expected_products(model))
    if op == "extractall_p":
        return ("tree", expected_tree(model))
    if op == "extract":
        sel = restrict(model, call["targets"], call.get("recursive", False))
        if call.get("sink") == "path":
            return ("tree", expected_tree(sel))
        return ("products", expected_products(sel))
    if op == "getinfo":
        n = norm_target(call["name"])
        for m in model:
            if m.name == n:
                return ("info", m.name, len(m.data) if m.kind != "dir" else 0, m.kind == "dir", None)
        return ("info", KeyError)
    return None


def compare(call, got, want, built):
    """None if the result agrees with the prediction, else a short description."""
    op = call["op"]
    if want is None:
        return None
    if op == "test":
        return None if got[1] in want[1] else "test() on an intact archive returned %r" % (got[1],)
    if op == "getinfo":
        if want[1] is KeyError or got[1] is KeyError:
            return None if got[1] is want[1] else "getinfo(%r): expected %s, got %r" % (call["name"], "KeyError" if want[1] is KeyError else "a member", got[1])
        if got[1] != want[1] or got[2] != want[2] or got[3] != want[3]:
            return "getinfo(%r) -> %r, model %r" % (call["name"], got[1:4], want[1:4])
        m = next(m for m in built.model if m.name == want[1])
        if got[4] is not None and m.kind != "dir" and got[4] != zlib.crc32(m.data):
            return "getinfo(%r): crc32 %r, content has %r" % (call["name"], got[4], zlib.crc32(m.data))
        return None
    if op in ("extractall_p",) or (op == "extract" and call.get("sink") == "path"):
        g, w = got[1], want[1]
        if g == w:
            return None
        missing = sorted(set(w) - set(g))
        extra = sorted(set(g) - set(w))
        diff = sorted(k for k in w if k in g and g[k] != w[k])
        return "tree differs: missing %r, unexpected %r, different %r" % (missing[:4], extra[:4], diff[:4])
    if op in ("extractall_f", "extract"):
        g, w = got[1], want[1]
        if g == w:
            return None
        missing = sorted(set(w) - set(g))
        extra = sorted(set(g) - set(w))
        diff = sorted(k for k in w if k in g and g[k] != w[k])
        return "products differ: missing %r, unexpected %r, different bytes %r" % (missing[:4], extra[:4], diff[:4])
    if got != want:
        return "%s -> %r, model %r" % (op, _short(got), _short(want))
    return None


def _short(x):
    s = repr(x)
    return s if len(s) < 300 else s[:300] + "..."


def listing_truth(sess: Session, built: Built):
    """C10 oracle: every listing interface against the model (and therefore against extraction)."""
    z = sess.z
    model = built.model
    probs = []
    names = [m.name for m in model]
    g1, g2 = z.getnames(), z.namelist()
    lst = z.list()
    files = [f for f in z.files]
    if g1 != names:
        probs.append(("getnames", "getnames() %r, stored order %r" % (_short(g1), _short(names))))
    if g2 != g1:
        probs.append(("namelist", "namelist differs from getnames"))
    if [f.filename for f in lst] != g1:
        probs.append(("list", "list() names %r differ from getnames %r" % (_short([f.filename for f in lst]), _short(g1))))
    if [f.filename for f in files] != g1:
        probs.append(("files", "files names differ from getnames"))
    if len(lst) == len(model):
        for m, f, af in zip(model, lst, files):
            size = len(m.data) if m.kind != "dir" else 0
            if f.uncompressed != size:
                probs.append(("list.uncompressed", "%r: uncompressed %r, extracted bytes %d" % (m.name, f.uncompressed, size)))
                break
            if m.kind != "dir" and f.crc32 is not None and f.crc32 != zlib.crc32(m.data):
                probs.append(("list.crc32", "%r: crc32 %r, content %r" % (m.name, f.crc32, zlib.crc32(m.data))))
                break
            rm = built.ref.members[len(probs) and 0 or model.index(m)] if built.ref is not None and len(built.ref.members) == len(model) else None
            if rm is not None and rm.crc is not None and not rm.emptystream and f.crc32 != rm.crc:
                probs.append(("list.crc32", "%r: the archive stores CRC32 %r for this member, the listing reports %r" % (m.name, rm.crc, f.crc32)))
                break
            if bool(f.is_directory) != (m.kind == "dir"):
                probs.append(("list.is_directory", "%r: is_directory %r, extraction creates a %s" % (m.name, f.is_directory, m.kind)))
                break
            if bool(af.is_directory) != (m.kind == "dir") or af.uncompressed != size:
                probs.append(("files.meta", "%r: files entry (is_directory=%r, uncompressed=%r) vs %s of %d bytes" % (m.name, af.is_directory, af.uncompressed, m.kind, size)))
                break
    # the member list walked while other listing calls are made, and walked twice at once: every walk sees every member once
    try:
        walked = []
        for k, f in enumerate(z.files):
            walked.append(f.filename)
            if k % 2 == 0:
                z.getnames()
            else:
                z.list()
            if k == 1 and names:
                z.getinfo(names[-1])
        if walked != names:
            probs.append(("files.interleaved", "walking files while calling getnames()/list()/getinfo() yielded %r, stored order %r" % (_short(walked), _short(names))))
        pairs = [(a.filename, b.filename) for a, b in zip(z.files, z.files)]
        if pairs != [(n, n) for n in names]:
            probs.append(("files.interleaved", "two simultaneous walks over files yielded %r" % (_short(pairs),)))
    except Exception as e:
        probs.append(("files.interleaved", "walking files while listing raised %r" % e))
    for m in model[:6]:
        for nm in (m.name, m.name + "/"):
            try:
                i = z.getinfo(nm)
                if i.filename != m.name:
                    probs.append(("getinfo", "getinfo(%r) returned %r" % (nm, i.filename)))
            except KeyError:
                probs.append(("getinfo", "getinfo(%r) raised KeyError for a listed name" % nm))
            except Exception as e:
                probs.append(("getinfo", "getinfo(%r) raised %r" % (nm, e)))
    for nm in ("absent-name", "absent/"):
        if nm.rstrip("/") not in names:
            try:
                z.getinfo(nm)
                probs.append(("getinfo", "getinfo(%r) did not raise KeyError" % nm))
            except KeyError:
                pass
            except Exception as e:
                probs.append(("getinfo", "getinfo(%r) raised %r instead of KeyError" % (nm, e)))
    want_np = predict({"op": "needs_password"}, built)[1]
    if z.needs_password() != want_np:
        probs.append(("needs_password", "needs_password() %r, expected %r" % (z.needs_password(), want_np)))
    return probs


def archive_summary_truth(sess: Session, built: Built):
    probs = []
    if getattr(sess, "anonymous", False):
        return probs
    try:
        a = sess.z.archiveinfo()
    except Exception as e:
        return [("archiveinfo", "archiveinfo() raised %r" % e)]
    model = built.model
    total = sum(len(m.data) for m in model if m.kind != "dir")
    if a.uncompressed != total:
        probs.append(("archiveinfo.uncompressed", "total %r, members sum to %d" % (a.uncompressed, total)))
    if a.blocks != built.nfolders:
        probs.append(("archiveinfo.blocks", "blocks %r, archive has %d folders" % (a.blocks, built.nfolders)))
    ref = built.ref
    solid = False
    if ref is not None and ref.main and ref.main["substreams"]:
        solid = any(n > 1 for n in ref.main["substreams"]["nums"])
    if bool(a.solid) != solid:
        probs.append(("archiveinfo.solid", "solid %r, folder stream counts %r" % (a.solid, ref.main["substreams"]["nums"] if ref and ref.main else None)))
    want = {n.upper() for n in method_names_expected(ref)}
    got = {n.upper() for n in a.method_names}
    if got != want:
        probs.append(("archiveinfo.method_names", "method names %r, coders present %r" % (sorted(a.method_names), sorted(method_names_expected(ref)))))
    if a.size != len(built.image):
        probs.append(("archiveinfo.size", "size %r, file has %d bytes" % (a.size, len(built.image))))
    return probs
