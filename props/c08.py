"""C08  Append preserves history.  Engine wsim, session histories (DESIGN.md 4, C08)."""
import os

from props import hist
from simkit.prng import Rng

PROPERTY = "C08"
ENGINE = "wsim"
LEVEL = "exploration"
RULE = ("case = seeded history w(M0,F0) a(M1,F1)..a(Mk,Fk), k<=3 (first session py7zr-written or a third-party fixture from tests/data), "
        "members via writestr/writef/write/writeall (real scratch sources), any catalogue chain per session, password constant, header mode any, "
        "device kind and knobs seeded; after EVERY close() the durable image is read by py7zr and by the reference reader and compared with the "
        "model: names of all sessions in order, bytes, and (mtime, attributes) of every earlier member unchanged. One evaluation = one closed session. "
        "distinct = (base kind, per-session chain families, header mode, session index, member-kind mix, #members class); "
        "non-trivial = an append session (or a session on a fixture base) that added >= 1 member.")
ASSUMPTIONS = ["ref7z and the codec libraries are trusted", "metadata baseline of a member = what is stored right after the session that created it"]
COMPONENTS = {"real": ["py7zr writer/reader", "CPython buffered I/O", "tmpfs sources for write/writeall", "codec libraries"],
              "stub": ["raw device (SimRaw)", "clock", "AES IV randomness", "knobs"]}


def plan(tier):
    if tier == "thorough":
        return {"n": None, "budget_s": int(os.environ.get("VERIF_BUDGET_S", "900")), "case_timeout": 300}
    return {"n": 1500, "budget_s": 170, "case_timeout": 120}


def gen_case(rng: Rng, i: int, tier: str):
    return hist.gen_history(rng, tier)


def run_case(case):
    res = hist.run_history(case, want_c07=False, want_c08=True)
    res["violations"] = [v for v in res["violations"] if v["prop"] == "C08"]
    return res


shrink_candidates = hist.shrink_candidates
case_class = hist.case_class
