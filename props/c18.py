"""C18  Progress callbacks give a complete, well-ordered account.  Engine csim with the virtual clock (DESIGN.md 4, C18)."""
import contextlib
import os
import shutil

from props import rsess
from props.c12 import _recipe_names
from simkit import driver, gen, rw, tree
from simkit.device import SimFS, SimRaw
from simkit.prng import Rng
from simkit.sched import Deadlock, FsYield, Scheduler, SchedTime, SimKill, make_queue_module, make_thread_class
from simkit.seams import Seams, digest_of, import_py7zr

PROPERTY = "C18"
ENGINE = "csim"
LEVEL = "exploration"
INTERLEAVING_MEASURE = "hash of the sequence (thread, callback kind / queue op / worker output) per (archive, targets, handler timing)"
RULE = ("case = seeded archive (single/multi-folder, with members that extract(T) skips) x extractall / extract(T) with a recording ExtractCallback whose "
        "handlers are instantaneous or block 1/10/50 simulated ms per event; the decoder's clock reads advance virtual time by 0..1.5 s so both arms "
        "of the 'time_delta >= 1' update rule run; worker threads, the reporter thread and the caller's close() are interleaved by the baton scheduler "
        "(random walk / PCT / starve-the-reporter), several seeded schedules per case, one extraction per session. Oracle over the recorded history "
        "(each callback stamped with the simulator's global event number, thread and virtual time): first event 'pre', last 'post'; for every name "
        "exactly one start then exactly one end, every delivered member occurs; end byte count == member size; sum(update) == sum of sizes of delivered "
        "members with data; every callback before close() returns, none in the quiescence window afterwards; close() does not raise. "
        "One evaluation = one scheduled extraction. distinct = interleaving hash x (archive, T, handler timing class); non-trivial = reporter ran concurrently with >= 1 worker.")
ASSUMPTIONS = ["handler blocking is modelled as simulated sleep; class B = the backlog still queued when close() is called exceeds the 1 s join budget"]
COMPONENTS = {"real": ["py7zr extraction workers and reporter loop (real OS threads under the baton)", "codec libraries"],
              "stub": ["scheduling", "queue.Queue", "threading.Thread", "time.time (virtual clock)", "archive device", "factory outputs"]}


def plan(tier):
    if tier == "thorough":
        return {"n": None, "budget_s": int(os.environ.get("VERIF_BUDGET_S", "900")), "case_timeout": 300}
    return {"n": 600, "budget_s": 170, "case_timeout": 120}


def gen_case(rng: Rng, i: int, tier: str):
    r = rng.sub("k")
    arc = rsess.gen_archive(rng.sub("arc"), tier, want_multi=True if r.chance(0.6) else None, encrypted=False if r.chance(0.8) else None, maxlen=2500)
    names = _recipe_names(arc)
    stub = [rw.Mem(n, b"", "file", None, None) for n in names]
    op = {"op": "extractall"} if r.chance(0.5) else {"op": "extract", "targets": rsess.gen_targets(r, stub, absent_ok=True), "recursive": r.chance(0.5)}
    nsched = 5 if tier == "quick" else 20
    scheds = []
    for k in range(nsched):
        kind = r.wpick([(5, "random"), (3, "pct"), (3, "starve")])
        st = {"kind": kind, "seed": r.randrange(1 << 30)}
        if kind == "random":
            st["stay"] = r.pick([0.2, 0.5, 0.8])
        elif kind == "pct":
            st["points"] = sorted(r.sample(range(2, 200), r.randint(1, 3)))
        else:
            st["victim"] = 1  # the reporter is the first thread py7zr starts
        if tier == "thorough" and r.chance(0.5):
            st["line_p"] = r.pick([0.005, 0.02, 0.1])  # line-level pre-emption inside py7zr frames
        scheds.append(st)
    rbk = rng.sub("blocks")
    multiblock = None
    if rbk.chance(0.12):
        # one member spans many input blocks (small block seam, incompressible content) while the decoder's clock jumps: several
        # update events for a single member
        multiblock = {"block": rbk.pick([512, 4096]), "len": rbk.pick([9000, 20000, 50000])}
    rm = rng.sub("many")
    if rm.chance(0.015):
        # hundreds of members: more than a thousand events, a backlog at close() well beyond any queue bound
        arc = {"sessions": [{"mode": "w", "chain": [{"id": "COPY"}], "password": None, "header": "raw", "header_via": "ctor",
                             "ops": [{"op": "writestr", "name": "m%03d" % k, "content": {"tex": "text", "len": 9, "seed": k}, "as": "bytes"} for k in range(rm.pick([350, 420]))]}],
               "knobs": {"block": 32768, "chunk": 128000000, "bufsize": 8192}, "rng": rm.randrange(1 << 30), "target": "path"}
        return {"archive": arc, "call": {"op": "extractall"}, "open": rm.pick(["path", "stream"]), "handler_ms": rm.pick([10, 10, 1]), "clock_jump": 0.0,
                "scheds": [{"kind": "random", "stay": 0.5, "seed": rm.randrange(1 << 30)}], "cb_shape": "plain", "sink": "factory"}
    if multiblock and arc["sessions"]:
        arc["sessions"][0]["ops"].insert(0, {"op": "writestr", "name": "big-multiblock.bin", "content": {"tex": "rand", "len": multiblock["len"], "seed": rbk.randrange(1 << 30)}, "as": "bytes"})
        if op.get("op") == "extract" and "big-multiblock.bin" not in op.get("targets", []):
            op["targets"] = list(op["targets"]) + ["big-multiblock.bin"]
    r2c = rng.sub("second")
    second = None
    if r2c.chance(0.15):
        second = {"op": "extractall"} if r2c.chance(0.5) else {"op": "extract", "targets": rsess.gen_targets(r2c, stub, absent_ok=True), "recursive": r2c.chance(0.5)}
    return {"archive": arc, "block": multiblock["block"] if multiblock else None, "second": second, "first_callback": not (second is not None and r2c.chance(0.35)),
            "call": op, "open": r.pick(["path", "stream", "anon"]), "handler_ms": r.wpick([(4, 0), (2, 1), (2, 10), (2, 50)]),
            "clock_jump": r.pick([0.0, 0.3, 1.5]), "scheds": scheds,
            # what else the callback object is: a plain object, a progress tracker that is also a sized collection of the
            # members finished so far (empty, hence falsy, when extraction starts), or an object whose truth value is False
            "cb_shape": rng.sub("shape").wpick([(6, "plain"), (2, "sized"), (1, "falsy")]),
            # where the members go: a caller-supplied writer factory, or a directory (the only way links are re-created)
            "sink": rng.sub("sink").wpick([(4, "factory"), (1, "path")])}


def _one(py7zr, built, case, strat, res):
    rng = Rng(strat["seed"], "sched")
    sched = Scheduler(rng=rng, replay=strat.get("replay"), strategy=strat, max_steps=400000)
    crng = Rng(strat["seed"], "clock")
    jump = case["clock_jump"]

    def adv():
        return crng.random() * jump if jump else 0.0

    def hook(dev, kind, off, n):
        if kind == "r" and sched.current != 0:
            sched.yield_(("io", dev.handle_id & 0xFF))

    fs = SimFS(hook=hook)
    fs.add(rsess.READ_PATH, built.image)
    import py7zr.py7zr as P
    from py7zr.callbacks import ExtractCallback

    hist = []  # (event number, thread, virtual time, kind, args, phase)
    unfinished = []  # handlers entered before close() returned that were still running when it did
    phase = {"p": "extract"}
    d = case["handler_ms"] / 1000.0

    class Rec(ExtractCallback):
        tag = 0  # which extraction call of the session this callback object was given to

        def _ev(self, kind, *args):
            hist.append((len(sched.events), sched.current, round(sched.now, 6), kind, args, phase["p"], self.tag))
            sched.log(("cb", kind))
            if d:
                sched.sleep(d)
                if phase["p"] == "after_close" and hist[-1][5] != "after_close":
                    # the handler was entered before close() returned and is still running afterwards: not "delivered before"
                    unfinished.append((kind, args))

        def report_start_preparation(self):
            self._ev("pre")

        def report_start(self, processing_file_path, processing_bytes):
            self._ev("s", processing_file_path, processing_bytes)

        def report_update(self, decompressed_bytes):
            self._ev("u", decompressed_bytes)

        def report_end(self, processing_file_path, wrote_bytes):
            self._ev("e", processing_file_path, wrote_bytes)

        def report_postprocess(self):
            self._ev("post")

        def report_warning(self, message):
            self._ev("w", message)

    shape = case.get("cb_shape", "plain")
    if shape == "sized":
        Rec.__len__ = lambda self: sum(1 for h in hist if h[3] == "e")
    elif shape == "falsy":
        Rec.__bool__ = lambda self: False

    base = rw.make_factory()

    class F(type(base)):
        def create(self, filename):
            sched.yield_(("out", "create:" + filename))
            return super().create(filename)

    fac = F()
    extra = [(P, "Thread", make_thread_class(sched)), (P, "queue", make_queue_module(sched)), (P, "time", SchedTime(sched, adv))]
    out = {"extract_error": None, "close_error": None, "dead": None, "queued_at_close": 0}
    outdir = None
    sinkkw = {"factory": fac}
    fsy = contextlib.nullcontext()
    if case.get("sink") == "path":
        outdir = os.path.join(driver.worker_scratch(), "c18-out")
        shutil.rmtree(outdir, ignore_errors=True)
        os.makedirs(outdir)
        sinkkw = {"path": outdir}
        fsy = FsYield(sched, outdir)
    with Seams(fs=fs, extra=extra, blocksize=case.get("block")), fsy:
        try:
            target = rsess.READ_PATH if case["open"] == "path" else SimRaw(fs.get(rsess.READ_PATH), readable=True, anonymous=case["open"] == "anon")
            z = py7zr.SevenZipFile(target, "r", password=built.password)
            try:
                try:
                    cb1 = Rec() if case.get("first_callback", True) else None
                    if case["call"]["op"] == "extractall":
                        z.extractall(callback=cb1, **sinkkw)
                    else:
                        z.extract(targets=list(case["call"]["targets"]), recursive=case["call"]["recursive"], callback=cb1, **sinkkw)
                    if case.get("second") is not None:
                        # a second extraction in the same session, after reset(), with a callback object of its own: each of
                        # the two accounts must be complete and go to the object it was asked for
                        z.reset()
                        fac2 = F()
                        cb2 = Rec()
                        cb2.tag = 1
                        if case["second"]["op"] == "extractall":
                            z.extractall(callback=cb2, factory=fac2)
                        else:
                            z.extract(targets=list(case["second"]["targets"]), recursive=case["second"]["recursive"], callback=cb2, factory=fac2)
                        out["products2"] = fac2.result()
                except (SimKill, Deadlock):
                    raise
                except Exception as e:
                    out["extract_error"] = e
                out["queued_at_close"] = z.q.qsize() if hasattr(z.q, "qsize") else 0
                phase["p"] = "closing"
                try:
                    z.close()
                except (SimKill, Deadlock):
                    raise
                except Exception as e:
                    out["close_error"] = e
                phase["p"] = "after_close"
                # quiescence window: let whatever is still alive run for 5 simulated seconds plus the time the handlers need for
                # what was still queued when close() was called (so that a late delivery is seen as late, not as missing)
                sched.block(lambda: False, timeout=5.0 + 1.5 * out["queued_at_close"] * d, tag=("quiesce",))
            finally:
                pass
        except Deadlock as e:
            out["dead"] = str(e)
        finally:
            sched.shutdown()
    out["hist"] = hist
    out["unfinished"] = unfinished
    if outdir is not None:
        # what landed on disk: file bytes, and for links the text that was decoded for them
        prods = {}
        try:
            for k, (kind, payload) in rsess.snapshot_tree(outdir).items():
                if kind == "file":
                    prods[k] = payload
                elif kind == "link":
                    prods[k] = payload.encode("utf-8")
        finally:
            tree.make_removable(outdir)
            shutil.rmtree(outdir, ignore_errors=True)
        out["products"] = prods
    else:
        out["products"] = fac.result()
    out["sched"] = sched
    return out


def check_history(built, case, o):
    """Returns list of (oracle, detail): one account per extraction call of the session."""
    if case.get("second") is None or "products2" not in o:
        return _check_account(built, case, o)
    probs = []
    for tag, call, prods in ((0, case["call"], o["products"]), (1, case["second"], o["products2"])):
        if tag == 0 and not case.get("first_callback", True):
            # the first call was made without a callback: nothing of it may reach anybody
            continue
        sub_case = dict(case)
        sub_case["call"] = call
        sub_o = dict(o)
        sub_o["hist"] = [h for h in o["hist"] if h[6] == tag]
        sub_o["products"] = prods
        for oracle, detail in _check_account(built, sub_case, sub_o):
            ent = (oracle, "extraction call %d of the session: %s" % (tag + 1, detail))
            if oracle in ("close_raised",) and any(p[0] == oracle for p in probs):
                continue
            probs.append(ent)
    return probs


def _check_account(built, case, o):
    probs = []
    hist = o["hist"]
    if o["extract_error"] is not None:
        return [("extract_raised", "extraction with a callback raised %r on a valid archive" % o["extract_error"])]
    kinds = [h[3] for h in hist]
    model = {m.name: m for m in built.model}
    if not kinds or kinds[0] != "pre":
        probs.append(("first_event_not_pre", "first callback is %r" % (kinds[:1],)))
    if o.get("unfinished"):
        probs.append(("event_after_close", "the handler of %r was still running when close() returned" % (o["unfinished"][0][0],)))
    after = [h for h in hist if h[5] == "after_close"]
    if after:
        probs.append(("event_after_close", "%d callbacks were delivered after close() returned (first: %r)" % (len(after), after[0][3:5])))
    if o["close_error"] is not None:
        probs.append(("close_raised", "close() raised %r" % o["close_error"]))
    if kinds.count("pre") > 1 or kinds.count("post") > 1:
        probs.append(("pre_post_repeated", "%d preparation and %d post-processing events in one account (order: %r)" % (kinds.count("pre"), kinds.count("post"), kinds[:6])))
    if "post" not in kinds:
        probs.append(("post_missing", "no postprocess event (events: %d)" % len(kinds)))
    elif [k for k in kinds if k != "w"][-1] != "post":
        probs.append(("post_not_last", "last event is %r" % kinds[-1]))
    starts, ends = {}, {}
    for idx, h in enumerate(hist):
        if h[3] == "s":
            starts.setdefault(h[4][0], []).append(idx)
        elif h[3] == "e":
            ends.setdefault(h[4][0], []).append((idx, h[4][1]))
    for name in sorted(set(starts) | set(ends)):
        s, e = starts.get(name, []), ends.get(name, [])
        if len(s) != 1 or len(e) != 1:
            probs.append(("start_end_not_paired", "%r: %d start events, %d end events" % (name, len(s), len(e))))
            continue
        if s[0] > e[0][0]:
            probs.append(("end_before_start", "%r: end event precedes start event" % name))
        m = model.get(name)
        if m is not None:
            size = len(m.data) if m.kind != "dir" else 0
            if str(e[0][1]) != str(size):
                probs.append(("end_count_wrong", "%r: end event carries %r, member size is %d" % (name, e[0][1], size)))
    delivered = o["products"]
    for name in delivered:
        if name not in starts:
            probs.append(("delivered_member_unreported", "%r was delivered but has no start event" % name))
            break
    # "every member the extraction processes": also the ones nothing is delivered for - directories and empty files of the selection
    if "post" in kinds:
        sel = built.model if case["call"]["op"] == "extractall" else rsess.restrict(built.model, case["call"]["targets"], case["call"]["recursive"])
        for m in sel:
            if m.name not in starts:
                probs.append(("processed_member_unreported", "%s %r is part of the selection but has no start event" % (m.kind, m.name)))
                break
    want_u = sum(len(v) for v in delivered.values())
    got_u = 0
    for h in hist:
        if h[3] == "u":
            try:
                got_u += int(h[4][0])
            except (TypeError, ValueError):
                probs.append(("update_not_a_number", "update event carries %r" % (h[4][0],)))
    if got_u != want_u and "post" in kinds:
        probs.append(("update_sum_wrong", "update events sum to %d, delivered members with data total %d" % (got_u, want_u)))
    return probs


def run_case(case):
    py7zr = import_py7zr()
    res = {"evals": 0, "violations": [], "faults": {}, "probes": {}, "rejected": {}, "classes": {}, "sigs": [], "interleavings": [], "extra": {}, "sim_time": 0.0}
    built = rsess.build_archive(case["archive"])
    if built.rejected or built.error is not None or built.image is None or not built.model:
        res["extra"]["archive_skipped"] = 1
        res["digest"] = digest_of(["skipped"])
        return res
    log = []
    nevents_est = 2 + 2 * len(built.model) + len(built.model)
    for si, strat in enumerate(case["scheds"]):
        if case.get("only_sched") is not None and si != case["only_sched"]:
            continue
        o = _one(py7zr, built, case, strat, res)
        res["evals"] += 1
        sched = o["sched"]
        res["sim_time"] += sched.now
        backlog_s = o["queued_at_close"] * case["handler_ms"] / 1000.0
        bclass = "B" if backlog_s >= 0.95 else "A"
        cls = {"open": case["open"], "multi": built.nfolders > 1, "call": case["call"]["op"], "handler_ms": case["handler_ms"], "backlog_class": bclass,
               "cb_shape": case.get("cb_shape", "plain"), "sink": case.get("sink", "factory"), "calls": 2 if case.get("second") is not None else 1, "first_callback": case.get("first_callback", True)}
        cls.update(gen.dep_flags([s.get("chain") for s in case["archive"]["sessions"]], None, None))
        # what close() did: the listed backlog finding is about its InternalError after the 1 s join, nothing else
        cls["close_error"] = type(o["close_error"]).__name__ if o["close_error"] is not None else None
        if o["dead"] is not None:
            res["violations"].append({"fp": {"oracle": "deadlock", "site": "scheduler", "class": cls}, "detail": "%s (strategy %r)" % (o["dead"], strat)})
        else:
            for oracle, detail in check_history(built, case, o):
                res["violations"].append({"fp": {"oracle": oracle, "site": "callback_history", "class": cls},
                                          "detail": "%s [schedule %d %s, %d decisions, %d events queued at close, handler %d ms]" % (
                                              detail, si, strat["kind"], len(sched.choices), o["queued_at_close"], case["handler_ms"])})
        sig = sched.interleaving_signature(("cb", "out", "put"))
        res["interleavings"].append(digest_of([built.image[:48], case["call"], case["handler_ms"], sig])[:16])
        threads_in_cb = {h[1] for h in o["hist"]}
        concurrent = _reporter_concurrent(sched)
        res["sigs"].append(([digest_of(built.image)[:10], str(case["call"]), case["handler_ms"], digest_of(sig)[:12]], concurrent))
        res["extra"]["context_switches"] = res["extra"].get("context_switches", 0) + sched.switches
        res["extra"]["line_preemptions"] = res["extra"].get("line_preemptions", 0) + len(sched.line_yields)
        for v in res["violations"]:
            if v.get("trace") is None:
                v["trace"] = {"schedule_index": si, "sched": list(sched.choices), "line_yields": list(sched.line_yields)}
        res["extra"]["callbacks_recorded"] = res["extra"].get("callbacks_recorded", 0) + len(o["hist"])
        res["faults"]["handler_blocks_%dms" % case["handler_ms"]] = res["faults"].get("handler_blocks_%dms" % case["handler_ms"], 0) + (1 if case["handler_ms"] else 0)
        if case["clock_jump"]:
            res["faults"]["clock_advance_during_decode"] = res["faults"].get("clock_advance_during_decode", 0) + 1
        if any(h[3] == "u" for h in o["hist"]):
            res["probes"]["update_events_seen"] = 1
        res["probes"]["class_B_backlog"] = max(res["probes"].get("class_B_backlog", 0), 1 if bclass == "B" else 0)
        log.append((si, [(h[1], h[3], h[4]) for h in o["hist"]], repr(o["close_error"])))
    res["probes"].setdefault("update_events_seen", 0)
    res["probes"].setdefault("class_B_backlog", 0)
    res["probes"]["reporter_concurrent_with_worker"] = 1 if any(nt for _, nt in res["sigs"]) else 0
    res["digest"] = digest_of(log)
    res["sample"] = {"folders": built.nfolders, "members": len(built.model), "call": case["call"], "handler_ms": case["handler_ms"], "clock_jump": case["clock_jump"],
                     "open": case["open"], "schedules": [s["kind"] for s in case["scheds"]],
                     "history_of_first_schedule": [(t, k, a) for (t, k, a) in (log[0][1] if log else [])][:14]}
    return res


def _reporter_concurrent(sched):
    """True if a callback event lies between two events of one worker thread (reporter interleaved with a worker)."""
    seq = [(tid, tag[0]) for _, tid, tag in sched.events if isinstance(tag, tuple) and tag and tag[0] in ("cb", "io", "out", "put")]
    for i in range(1, len(seq) - 1):
        if seq[i][1] == "cb":
            before = {t for t, k in seq[:i] if k != "cb"}
            afterw = {t for t, k in seq[i + 1:] if k != "cb"}
            if before & afterw:
                return True
    return False


def shrink_candidates(case):
    import copy

    if case.get("only_sched") is None:
        for si in range(len(case["scheds"])):
            c = copy.deepcopy(case)
            c["only_sched"] = si
            yield c
    if case["clock_jump"]:
        c = copy.deepcopy(case)
        c["clock_jump"] = 0.0
        yield c
    arc = case["archive"]
    if len(arc["sessions"]) > 1:
        c = copy.deepcopy(case)
        c["archive"]["sessions"].pop()
        yield c
    for si, s in enumerate(arc["sessions"]):
        for i in range(len(s["ops"]) - 1, -1, -1):
            if sum(len(x["ops"]) for x in arc["sessions"]) > 1:
                c = copy.deepcopy(case)
                del c["archive"]["sessions"][si]["ops"][i]
                yield c


def case_class(case):
    return gen.dep_flags([s.get("chain") for s in case["archive"]["sessions"]], None, None)
