"""C01  Content round trip: what is written is what is read, for every codec chain.
Engine wsim, fault-free configuration (DESIGN.md 4, C01): seeded session history on a simulated device, seeded
knobs (block size, chunk limit, buffer size), device kinds, deterministic clock and RNG, reference model."""
import json
import os
import shutil

from simkit import driver, gen, rw
from simkit.device import SimFS, SimRaw
from simkit.prng import Rng
from simkit.seams import Seams, SimClock, SimRandom, digest_of, import_py7zr

PROPERTY = "C01"
ENGINE = "wsim"
LEVEL = "exploration"
RULE = ("case = one create session (writestr/writef members, names and contents per the quantifier, any catalogue chain, password y/n, "
        "header raw/encoded/encrypted) on a seeded device kind (path via simulated open / unbuffered stream / caller-owned BufferedRandom / "
        "MultiVolume), seeded block size, chunk limit and buffer size; then reopened (path or stream, own knobs) and compared with the model "
        "(names in order, factory products, and the extracted tree when the names are filesystem-safe). "
        "distinct = (chain family, header mode, device kind, block class, chunk class, #members class, size-boundary classes); "
        "non-trivial = at least one member with data was delivered by extraction.")
ASSUMPTIONS = ["codec libraries are deterministic functions of their input", "chains that py7zr refuses before writing any member are counted as rejected, not as violations"]
COMPONENTS = {"real": ["py7zr writer and reader", "CPython buffered I/O", "multivolumefile (real scratch files)", "codec libraries", "tmpfs for extractall(path)"],
              "stub": ["raw device (SimRaw)", "clock", "AES IV randomness", "block size / chunk limit / buffer size knobs"]}


def plan(tier):
    if tier == "thorough":
        return {"n": None, "budget_s": int(os.environ.get("VERIF_BUDGET_S", "900")), "case_timeout": 300}
    return {"n": 2600, "budget_s": 170, "case_timeout": 120}


def gen_case(rng: Rng, i: int, tier: str):
    heavy = tier == "thorough"
    r = rng.sub("ops")
    knobs = gen.gen_knobs(rng.sub("knobs"))
    big = heavy and r.chance(0.05)
    if big:
        knobs["block"] = 1048576
        knobs["chunk"] = 128000000
    maxlen = (3 << 20) if big else (70000 if r.chance(0.25) else 3000)
    docs = gen.documented_chains()
    pathx = r.chance(0.3)
    sess = rw.gen_session(r, r.wpick([(5, "w"), (1, "x")]), knobs, (), nmax=6, maxlen=maxlen, heavy=heavy,
                          name_style="ascii" if pathx and r.chance(0.5) else None, safe_prefix=pathx)
    if i < 4 * len(docs):  # stratified: every documented chain first, with and without members of interesting sizes
        sess["chain"] = [dict(f) for f in docs[i % len(docs)]]
        if gen.chain_has_aes(sess["chain"]) and sess["password"] is None:
            sess["password"] = "secret"
    rb = rng.sub("bcjtail")
    if gen.dep_flags([sess.get("chain")], None, None).get("uses_pybcj") and rb.chance(0.5):
        # directed: a branch-converting filter decoded piecewise - members dense with convertible CALL/JMP operands whose
        # boundaries (and the read block / chunk limit) fall a few bytes before the end of the folder
        nms = gen.gen_names(rb, 3, style="ascii", safe_prefix=True)
        sizes = [rb.pick([1000, 4091, 4096, 4097, 32768 + rb.randint(-4, 4)]), rb.pick([0, 5, 16, 17]), rb.randint(1, 8)]
        seed_ = rb.randrange(1 << 30)
        ops_, skip = [], 0
        for nm, ln in zip(nms, sizes):
            ops_.append({"op": "writestr", "name": nm, "content": {"tex": "calls", "len": ln, "seed": seed_, "skip": skip}, "as": "bytes"})
            skip += ln
        sess["ops"] = ops_
    target = r.wpick([(4, "path"), (3, "stream"), (2, "bufobj"), (2, "mv")])
    rp = rng.sub("plant")
    fam_ids = [f["id"] for f in (sess.get("chain") or [])]
    plant = None
    if any(x in fam_ids for x in ("BROTLI", "ZSTD", "COPY")) and "AES" not in fam_ids and not any(x in fam_ids for x in ("X86", "ARM", "ARMT", "PPC", "SPARC", "DELTA", "IA64")) and rp.chance(0.5):
        # directed: one incompressible member (stored verbatim by these codecs) in which the skippable-frame magic of the
        # zstd/brotli-mt container formats is planted exactly on a read-block boundary of the packed stream (second pass in run_case)
        plant = "502a4d18"
        nm = gen.gen_names(rp, 1, style="ascii", safe_prefix=True)[0]
        sess["ops"] = [{"op": "writestr", "name": nm, "content": {"tex": "rand", "len": rp.pick([300, 1000, 5000]), "seed": rp.randrange(1 << 30)}, "as": "bytes"}]
        if target == "mv":
            target = "path"
    vol = r.pick([64, 65, 100, 1000, 4096, 100000])
    if target == "mv":
        # multivolumefile writes a block recursively, one volume per level: keep block / volume below the recursion limit
        vol = max(vol, maxlen // 300, knobs["block"] // 300 if maxlen > knobs["block"] else 0)
    case = {"session": sess, "target": target, "knobs": knobs, "rng": r.randrange(1 << 30),
            "read": {"kind": r.pick(["path", "stream"]), "block": gen.gen_knobs(r)["block"], "chunk": gen.gen_knobs(r)["chunk"]},
            "volume": vol, "path_extract": pathx}
    rbp = rng.sub("bigpiece")
    if rbp.chance(0.006) and not plant:
        # directed: default knobs (1 MiB block, 128 MB chunk) and a member of several MiB that compresses about 2:1, so that
        # the decoder hands out pieces larger than 1 MiB, several per member
        sess["chain"] = rbp.pick([None, [{"id": "ZSTD", "level": 3}], [{"id": "DEFLATE"}], [{"id": "LZMA2", "preset": 1}], [{"id": "BZIP2"}], [{"id": "LZMA", "preset": 1}]])
        nm = gen.gen_names(rbp, 2, style="ascii", safe_prefix=True)
        sess["ops"] = [{"op": "writestr", "name": nm[0], "content": {"tex": "text", "len": 100, "seed": 1}, "as": "bytes"},
                       {"op": "writestr", "name": nm[1], "content": {"tex": "half", "len": rbp.pick([5 << 20, (4 << 20) + 17]), "seed": rbp.randrange(1 << 30)}, "as": "bytes"}]
        if gen.chain_has_aes(sess["chain"]) and sess["password"] is None:
            sess["password"] = "secret"
        case["knobs"] = {"block": 1048576, "chunk": 128000000, "bufsize": 8192}
        case["read"] = {"kind": rbp.pick(["path", "stream"]), "block": 1048576, "chunk": 128000000}
        case["target"] = "path"
        case["path_extract"] = False
    if plant:
        case["plant"] = plant
        case["read"]["block"] = rp.pick([16, 17, 255, 4096])
    if big:
        # megabyte members through a one-byte chunk limit / 16-byte read block are millions of traced decoder calls: the
        # case would only ever meet the wall-clock backstop.  Big members are read with big knobs; tiny knobs meet small members.
        case["read"]["block"] = max(case["read"]["block"], 32768)
        case["read"]["chunk"] = max(case["read"]["chunk"], 65536)
    return case


def _fs_safe(names):
    for n in names:
        for comp in n.split("/"):
            if len(comp.encode("utf-8", "surrogatepass")) > 200:
                return False
        if len(n.encode("utf-8", "surrogatepass")) > 900:
            return False
    return True


def _size_class(n, block):
    if n in (0, 1, 15, 16, 17, 31, 32, 33):
        return str(n)
    for k, nm in ((block, "B"), (2 * block, "2B")):
        if n in (k - 1, k, k + 1):
            return nm + "%+d" % (n - k)
    return "<B" if n < block else ">B"


def _plant(case, fs, sess, knobs, clock):
    """Second pass for codecs that store incompressible data verbatim: find where the member's bytes sit in the packed stream,
    put a word the decoder gives a meaning to (a frame magic) exactly where a read-block boundary of the READER falls, and
    write the archive again.  Returns (fs, added) of the second pass, or None when the stream is not verbatim."""
    import ref7z

    word = bytes.fromhex(case["plant"])
    image = fs.get(rw.SIM_PATH).snapshot()
    try:
        a = ref7z.read(image, sess.get("password"), decode_data=False)
        pi = a.main["packinfo"]
        P = image[32 + pi["packpos"]: 32 + pi["packpos"] + pi["sizes"][0]]
    except Exception:
        return None
    R = gen.materialize(sess["ops"][0]["content"])
    rb = case["read"]["block"]
    for b in list(range(rb, len(P) - 8, rb))[:64]:
        for shift in range(0, 48):
            k = b - shift
            if k >= 0 and k + 8 <= len(R) and P[b:b + 8] == R[k:k + 8]:
                R2 = R[:k] + word + R[k + len(word):]
                sess2 = json.loads(json.dumps(sess))
                sess2["ops"][0]["content"] = {"hex": R2.hex()}
                fs2 = SimFS(buffer_size=knobs["bufsize"])
                with Seams(fs=fs2, blocksize=knobs["block"], memlimit=knobs["chunk"], clock=clock, rand=SimRandom(Rng(case["rng"], "iv"))):
                    try:
                        added2, err2 = rw.run_write_session(fs2, sess2, case["target"], knobs["bufsize"])
                    except rw.Rejected:
                        return None
                if err2 is not None:
                    return None
                image2 = fs2.get(rw.SIM_PATH).snapshot()
                if image2[32 + pi["packpos"] + b: 32 + pi["packpos"] + b + len(word)] == word:
                    return fs2, added2
                break
    return None


def run_case(case):
    py7zr = import_py7zr()
    knobs = case["knobs"]
    sess = case["session"]
    res = {"evals": 1, "violations": [], "faults": {}, "probes": {}, "rejected": {}, "classes": {}, "sigs": []}
    fam = gen.chain_family(sess.get("chain"))
    cls = {"chain": fam, "header": sess["header"], "target": case["target"], "mode": sess["mode"]}
    cls.update(gen.dep_flags([sess.get("chain")], case["read"]["chunk"], case["read"]["block"]))

    def viol(oracle, site, detail, **extra):
        c = dict(cls)
        c.update(extra)
        res["violations"].append({"fp": {"oracle": oracle, "site": site, "class": c}, "detail": detail})

    fs = SimFS(buffer_size=knobs["bufsize"])
    clock = SimClock(tick=0.001)
    rand = SimRandom(Rng(case["rng"], "iv"))
    scratch = None
    image = None
    try:
        with Seams(fs=fs, blocksize=knobs["block"], memlimit=knobs["chunk"], clock=clock, rand=rand):
            try:
                if case["target"] == "mv":
                    import multivolumefile

                    scratch = os.path.join(driver.worker_scratch(), "c01mv")
                    shutil.rmtree(scratch, ignore_errors=True)
                    os.makedirs(scratch)
                    mvpath = os.path.join(scratch, "a.7z")
                    with multivolumefile.MultiVolume(mvpath, mode="wb", volume=case["volume"]) as mv:
                        added, err = _mv_session(py7zr, mv, sess)
                else:
                    added, err = rw.run_write_session(fs, sess, case["target"], knobs["bufsize"])
            except rw.Rejected as e:
                res["rejected"][fam] = 1
                res["digest"] = digest_of(["rejected", fam])
                res["sample"] = {"chain": fam, "rejected": str(e)[:100]}
                if sess.get("chain") in gen.documented_chains():
                    viol("documented_chain_rejected", "write", "chain %s is listed in docs/api.rst but refused: %s" % (fam, e))
                return res
        if err is not None:
            viol("write_session_raised", "close" if len(added) == len(sess["ops"]) else "write", "accepted chain %s, session raised %r after %d members" % (fam, err, len(added)), error=type(err).__name__)
            res["digest"] = digest_of(["raised", repr(err)[:100]])
            return res
        if case.get("plant") and case["target"] != "mv" and len(sess["ops"]) == 1 and sess["ops"][0]["op"] == "writestr":
            planted = _plant(case, fs, sess, knobs, clock)
            if planted is not None:
                fs, added = planted
                res["probes"]["magic_word_planted_on_chunk_boundary"] = 1
            else:
                res["probes"]["magic_word_planted_on_chunk_boundary"] = 0
        model = rw.pairs(added)
        want_names = [n for n, _ in model]
        want = {n: d for n, d in model}
        rk = case["read"]
        password = sess.get("password")
        # ---- reopen
        from simkit.steps import StepBudgetExceeded, StepCounter

        budget = rw.read_budget(len(fs.get(rw.SIM_PATH).data) if rw.SIM_PATH in fs.files else 100000, sum(len(d) for d in want.values()))
        sc = StepCounter(budget)
        try:
            with sc:
                _reopen_and_compare(case, fs, py7zr, rk, password, mvpath if case["target"] == "mv" else None, viol, want, want_names, model, res, state := {})
        except StepBudgetExceeded:
            viol("call_never_returns", "read", "reading the archive written with %s exceeded %d steps (spin)" % (fam, budget))
            state = {"nontrivial": False, "image": None}
        res["sim_steps"] = sc.steps
        image = state.get("image")
        nontrivial = state.get("nontrivial", False)
        sizes = sorted({_size_class(len(d), knobs["block"]) for _, d in model})
        sig = [fam, sess["header"], case["target"], knobs["block"], "small" if rk["chunk"] < 4096 else "big", min(len(model), 3), sizes]
        res["sigs"].append((sig, nontrivial))
        res["classes"]["%s|%s" % (fam, sess["header"])] = 1
        res["probes"]["multi_block_member"] = 1 if any(len(d) > knobs["block"] for _, d in model) else 0
        res["probes"]["carry_over_chunk"] = 1 if any(len(d) > rk["chunk"] for _, d in model) else 0
        res["digest"] = digest_of([image, sorted(want.items())])
        res["sample"] = {"chain": sess.get("chain"), "header": sess["header"], "password": password is not None, "target": case["target"],
                         "knobs": knobs, "read": rk, "members": [[n, len(d)] for n, d in model][:6]}
        return res
    finally:
        if scratch:
            shutil.rmtree(scratch, ignore_errors=True)


def _reopen_and_compare(case, fs, py7zr, rk, password, mvpath, viol, want, want_names, model, res, state):
    image = None
    nontrivial = False
    fam = gen.chain_family(case["session"].get("chain"))
    with Seams(fs=fs, blocksize=rk["block"], memlimit=rk["chunk"], inline_threads=True):
        if case["target"] == "mv":
            import multivolumefile

            target = multivolumefile.MultiVolume(mvpath, mode="rb")
            closer = target.close
        elif rk["kind"] == "path":
            target, closer = rw.SIM_PATH, (lambda: None)
            image = fs.get(rw.SIM_PATH).snapshot()
        else:
            image = fs.get(rw.SIM_PATH).snapshot()
            target = SimRaw(fs.get(rw.SIM_PATH), readable=True)
            closer = target.close
        try:
            try:
                z = py7zr.SevenZipFile(target, "r", password=password)
            except Exception as e:
                viol("reopen_failed", "open", "archive written with %s does not open: %r" % (fam, e), error=type(e).__name__)
                return res
            try:
                names = z.getnames()
                if names != want_names:
                    viol("names_differ", "getnames", "written %r, listed %r" % (want_names, names))
                fac = rw.make_factory()
                z.extractall(factory=fac)
                got = fac.result()
                if got != want:
                    missing = [n for n in want if n not in got]
                    extra_ = [n for n in got if n not in want]
                    diff = [n for n in want if n in got and got[n] != want[n]]
                    kind = "missing" if missing else ("extra" if extra_ else "bytes_differ")
                    viol("content_differs", "extractall(factory)", "missing=%r extra=%r differing=%r (lens want %r got %r)" % (
                        missing[:3], extra_[:3], diff[:3], [len(want[n]) for n in diff[:3]], [len(got[n]) for n in diff[:3]]), kind=kind)
                if any(len(d) for d in want.values()) and got == want:
                    nontrivial = True
                else:
                    nontrivial = False
                if case.get("path_extract") and _fs_safe(want_names) and case["target"] != "mv":
                    z.reset()
                    out = os.path.join(driver.worker_scratch(), "c01x")
                    shutil.rmtree(out, ignore_errors=True)
                    os.makedirs(out)
                    try:
                        z.extractall(path=out)
                        for n, d in model:
                            p = os.path.join(out, n)
                            try:
                                with open(p, "rb") as f:
                                    b = f.read()
                            except OSError as e:
                                viol("content_differs", "extractall(path)", "member %r not on disk: %r" % (n, e), kind="missing")
                                break
                            if b != d:
                                viol("content_differs", "extractall(path)", "member %r differs on disk (%d vs %d bytes)" % (n, len(b), len(d)), kind="bytes_differ")
                                break
                        res["probes"]["path_extract"] = 1
                    finally:
                        shutil.rmtree(out, ignore_errors=True)
            except Exception as e:
                viol("read_failed", "read", "archive written with %s fails on read: %r" % (fam, e), error=type(e).__name__)
                nontrivial = False
            finally:
                try:
                    z.close()
                except Exception:
                    pass
        finally:
            closer()
    state["image"] = image
    state["nontrivial"] = nontrivial


def _mv_session(py7zr, mv, sess):
    """Same as rw.run_write_session but with a MultiVolume object as target."""
    import io

    kwargs = {}
    filters = gen.to_filters(sess.get("chain"))
    if filters is not None:
        kwargs["filters"] = filters
    if sess.get("password") is not None:
        kwargs["password"] = sess["password"]
    hdr = sess.get("header", "enc")
    if hdr == "crypt" and sess.get("header_via", "ctor") == "ctor":
        kwargs["header_encryption"] = True
    added = []
    try:
        try:
            z = py7zr.SevenZipFile(mv, sess["mode"], **kwargs)
        except py7zr.exceptions.UnsupportedCompressionMethodError as e:
            raise rw.Rejected(repr(e))
        if hdr == "raw":
            z.set_encoded_header_mode(False)
        elif hdr == "crypt" and sess.get("header_via") == "setter":
            z.set_encrypted_header(True)
        first = True
        for op in sess["ops"]:
            data = rw.content_bytes(op)
            raw = gen.materialize(op["content"])
            try:
                if op["op"] == "writestr":
                    z.writestr(raw.decode("latin-1") if op.get("as") == "str" else raw, op["name"])
                else:
                    if op.get("bio") == "buffered":
                        bio = io.BufferedReader(io.BytesIO(raw))
                        bio.seek(op.get("offset", 0))
                    else:
                        bio = io.BytesIO(raw)
                        data = raw
                    z.writef(bio, op["name"])
            except py7zr.exceptions.UnsupportedCompressionMethodError as e:
                if first:
                    raise rw.Rejected(repr(e))
                raise
            first = False
            added.append(rw.Mem(op["name"], data, "file", None, None))
        z.close()
        rw._absorb_dealloc_noise(False)
    except rw.Rejected:
        rw._absorb_dealloc_noise()
        raise
    except Exception as e:
        rw._absorb_dealloc_noise()
        return added, e
    return added, None


def shrink_candidates(case):
    import copy

    ops = case["session"]["ops"]
    for i in range(len(ops)):
        c = copy.deepcopy(case)
        del c["session"]["ops"][i]
        yield c
    for i, op in enumerate(ops):
        n = op["content"].get("len", 0)
        for m in (0, 1, n // 2, n - 1):
            if 0 <= m < n:
                c = copy.deepcopy(case)
                c["session"]["ops"][i]["content"]["len"] = m
                c["session"]["ops"][i].pop("offset", None)
                yield c
        if len(op["name"]) > 1:
            c = copy.deepcopy(case)
            c["session"]["ops"][i]["name"] = "n%d" % i
            yield c
    if case["target"] != "stream":
        c = copy.deepcopy(case)
        c["target"] = "stream"
        yield c
    if case["session"]["header"] != "raw":
        c = copy.deepcopy(case)
        c["session"]["header"] = "raw"
        yield c
    ch = case["session"].get("chain")
    if ch and len(ch) > 1:
        for i in range(len(ch)):
            if ch[i]["id"] == "AES":
                continue
            c = copy.deepcopy(case)
            del c["session"]["chain"][i]
            if c["session"]["chain"] and c["session"]["chain"][-1]["id"] not in ("AES",) + tuple(gen.COMPRESSORS):
                continue
            yield c
    for k, v in (("block", 1048576), ("chunk", 128000000), ("bufsize", 8192)):
        if case["knobs"][k] != v:
            c = copy.deepcopy(case)
            c["knobs"][k] = v
            yield c
    for k, v in (("block", 1048576), ("chunk", 128000000)):
        if case["read"][k] != v:
            c = copy.deepcopy(case)
            c["read"][k] = v
            yield c
    if case.get("path_extract"):
        c = copy.deepcopy(case)
        c["path_extract"] = False
        yield c


def case_class(case):
    return gen.dep_flags([case["session"].get("chain")], case["read"]["chunk"], case["read"]["block"])
