"""C11  Encryption: nothing leaks, nothing is delivered without the right password.  Engine wsim with the RNG seam plus
wrong-key faults in rsim (DESIGN.md 4, C11)."""
import os

from props import rsess
from simkit import gen, rw
from simkit.device import SimFS, SimRaw
from simkit.prng import Rng
from simkit.seams import Seams, SimClock, SimRandom, digest_of, import_py7zr
from simkit.steps import StepBudgetExceeded, StepCounter

import ref7z
from ref7z import codecs as RC

PROPERTY = "C11"
ENGINE = "wsim+rsim"
LEVEL = "exploration"
RULE = ("case = member list with >= 24 bytes of recognisable plaintext and names >= 6 characters x chain ending in 7zAES (every compressor family, "
        "optional front filter, AES alone, Copy+AES) or the default encrypted chain x header encryption off / on (constructor flag, setter) x password "
        "over Unicode incl. empty and astral; the case is written TWICE (two sessions in one process, IV source = seeded RNG seam). Oracles: "
        "(1) no leak: no 24-byte window of any member's plaintext in the image, decoding each packed stream with its chain minus the AES coder (no key) "
        "does not yield it, with header encryption no member name in UTF-16-LE / UTF-8 and the reference reader cannot list names without the key; "
        "(2) IV hygiene: IVs of all AES coders of both images pairwise distinct, ciphertext streams of the two archives differ; (3) key required: "
        "open/extractall without password raises PasswordRequired, wrong passwords (different, prefix, case-changed) raise, and no call ever delivers "
        "bytes that differ from the original. One evaluation = one written archive pair with its read attempts. "
        "distinct = (chain family, header encryption, password class, wrong-password class); non-trivial = an AES coder is present in the image.")
ASSUMPTIONS = ["a 24-byte window of seeded pseudo-random plaintext does not occur in ciphertext by chance", "KDF real (memoised per (password, cycles, salt))"]
COMPONENTS = {"real": ["py7zr writer/reader", "pycryptodomex AES", "7zAES KDF", "codec libraries"], "stub": ["archive device", "IV randomness (seeded, recorded)", "clock"],
              "oracle": ["ref7z keyless decoding and independent KDF"]}


def plan(tier):
    if tier == "thorough":
        return {"n": None, "budget_s": int(os.environ.get("VERIF_BUDGET_S", "900")), "case_timeout": 300}
    return {"n": 500, "budget_s": 170, "case_timeout": 120}


def gen_case(rng: Rng, i: int, tier: str):
    r = rng.sub("k")
    knobs = {"block": r.pick([4096, 32768, 1048576]), "chunk": 128000000, "bufsize": 8192}
    password = gen.gen_password(r)
    kind = r.wpick([(3, "default"), (6, "catalogue"), (1, "aes_only"), (1, "copy_aes")])
    if kind == "default":
        chain = None
    elif kind == "aes_only":
        chain = [{"id": "AES"}]
    elif kind == "copy_aes":
        chain = [{"id": "COPY"}, {"id": "AES"}]
    else:
        chain = gen.gen_chain(r, allow_aes=True, force_aes=True)
        if chain is None:
            chain = [{"id": "LZMA2", "preset": 1}, {"id": "AES"}]
        chain = [f for f in chain if f["id"] != "PPMD"] or [{"id": "LZMA2"}]
        if not any(f["id"] in gen.COMPRESSORS for f in chain):
            chain = [f for f in chain if f["id"] != "AES"] + [{"id": "LZMA2", "preset": 1}]
        if chain[-1]["id"] != "AES":
            chain.append({"id": "AES"})
    n = r.randint(1, 3)
    ops = []
    for k in range(n):
        name = "secret-%d-%s/%s" % (k, gen.gen_component(r, "ascii"), gen.gen_component(r, r.pick(["ascii", "bmp", "astral"]))) + "-name"
        ln = r.pick([24, 31, 32, 33, 100, 1000, 5000])
        ops.append({"op": r.pick(["writestr", "writef"]), "name": name, "content": {"tex": r.pick(["rand", "text", "code", "crc0"]), "len": ln, "seed": r.randrange(1 << 30)}, "as": "bytes", "bio": "bytesio"})
    hdr = r.wpick([(3, "enc"), (1, "raw"), (4, "crypt")])
    sess = {"mode": rng.sub("mode").pick(["w", "w", "x"]), "chain": chain, "password": password, "header": hdr, "header_via": r.pick(["ctor", "setter"]), "ops": ops}
    ra = rng.sub("append")
    append = None
    if ra.chance(0.35):
        append = {"chain": ra.pick(["default", "default", "same"]),
                  "op": {"op": "writestr", "name": "secret-appended-%s/%s-name" % (gen.gen_component(ra, "ascii"), gen.gen_component(ra, "ascii")),
                         "content": {"tex": ra.pick(["text", "code"]), "len": ra.pick([24, 100, 1000]), "seed": ra.randrange(1 << 30)}, "as": "bytes"}}
    extra = rw.gen_header_extra(rng.sub("header_extra"), hdr, p=0.4)
    if extra:
        sess["header_extra"] = extra
    wrong = r.pick(["different", "prefix", "case", "none", "suffix", "space", "strip"])
    case = {"session": sess, "knobs": knobs, "rng": r.randrange(1 << 30), "wrong": wrong, "open": r.pick(["stream", "path", "anon"])}
    if append:
        case["append"] = append
    return case


def _windows(data, w=24):
    if len(data) < w:
        return []
    step = max(1, (len(data) - w) // 8)
    return [data[i:i + w] for i in range(0, len(data) - w + 1, step)][:10] + [data[-w:]]


def _wrong_password(pw, kind):
    if kind == "none":
        return None
    if kind == "prefix":
        return pw[:-1] if len(pw) > 0 else "x"
    if kind == "suffix":
        return pw + "x"
    if kind == "space":
        return pw + " "
    if kind == "strip":
        return pw.strip() if pw.strip() != pw else " " + pw
    if kind == "case":
        sw = pw.swapcase()
        return sw if sw != pw else pw + "A"
    return "totally-different-" + pw[::-1]


def run_case(case):
    py7zr = import_py7zr()
    res = {"evals": 1, "violations": [], "faults": {}, "probes": {}, "rejected": {}, "classes": {}, "sigs": [], "extra": {}, "sim_steps": 0}
    sess = case["session"]
    knobs = case["knobs"]
    password = sess["password"]
    fam = gen.chain_family(sess["chain"])
    cls = {"chain": fam, "header": sess["header"], "header_via": sess["header_via"], "empty_password": password == ""}

    def viol(oracle, site, detail, **extra):
        c = dict(cls)
        c.update(extra)
        res["violations"].append({"fp": {"oracle": oracle, "site": site, "class": c}, "detail": detail})

    images = []
    rand = SimRandom(Rng(case["rng"], "iv"))
    model = None
    import random as _random

    saved_state = _random.getstate()
    for k in range(2):
        # the seam stands for the operating system's entropy source, which never repeats; everything process-local - the
        # interpreter's global Mersenne Twister above all - is put into the same state before each archive, as it is in
        # two forked workers or in two runs of a program that seeds it: an IV derived from such state would repeat
        _random.seed(case["rng"])
        fs = SimFS(buffer_size=knobs["bufsize"])
        with Seams(fs=fs, blocksize=knobs["block"], memlimit=knobs["chunk"], clock=SimClock(tick=0.001), rand=rand):
            try:
                added, err = rw.run_write_session(fs, sess, "path", knobs["bufsize"])
            except rw.Rejected:
                res["rejected"][fam] = 1
                res["digest"] = digest_of(["rejected", fam])
                _random.setstate(saved_state)
                return res
        if err is not None:
            viol("write_failed", "write", "encrypted session with chain %s raised %r" % (fam, err), error=type(err).__name__)
            _random.setstate(saved_state)
            return res
        images.append(fs.get(rw.SIM_PATH).snapshot())
        model = rw.pairs(added)
    _random.setstate(saved_state)
    plain = {n: d for n, d in model}
    # ---------------- (0) an append session under the same password protects what it adds ----------------
    if case.get("append"):
        ap = case["append"]
        sess_a = {"mode": "a", "chain": sess["chain"] if ap["chain"] == "same" else None, "password": password, "header": sess["header"],
                  "header_via": sess["header_via"], "ops": [ap["op"]]}
        with Seams(fs=fs, blocksize=knobs["block"], memlimit=knobs["chunk"], clock=SimClock(tick=0.001), rand=rand):
            try:
                added_a, err_a = rw.run_write_session(fs, sess_a, "path", knobs["bufsize"])
            except rw.Rejected:
                added_a, err_a = [], None
        if err_a is not None:
            viol("write_failed", "append", "append session with the same password raised %r" % (err_a,), error=type(err_a).__name__)
        elif added_a:
            img_a = fs.get(rw.SIM_PATH).snapshot()
            res["probes"]["append_session_under_password"] = 1
            for n, d in rw.pairs(added_a):
                if any(w in img_a for w in _windows(d)):
                    viol("plaintext_in_archive", "image", "after an append with the password the archive contains member %r in the clear" % n, which="append")
            try:
                aa = ref7z.read(img_a, password, decode_data=True)
                for fi, f in enumerate(aa.main["folders"] if aa.main and aa.main["folders"] else []):
                    if ref7z.reader.folder_unpack_size(f) > 0 and not any(c["id"] == RC.M_AES for c in f["coders"]):
                        viol("folder_not_encrypted", "image", "after an append with the password: folder %d has coders %r - no 7zAES coder" % (
                            fi, [RC.NAMES.get(c["id"]) for c in f["coders"]]), which="append")
                if len(set(bytes(iv) for iv in aa.ivs)) != len(aa.ivs):
                    viol("iv_reused", "image", "initialisation vectors repeat between the sessions of one archive", which="append")
                if [(m.name, m.data) for m in aa.members if m.kind != "dir"] != model + rw.pairs(added_a):
                    viol("right_password_fails", "append", "after the append the archive does not hold the members of both sessions")
            except Exception as e:
                viol("reference_reader_failed", "ref7z", "reference reader cannot parse the archive after the append: %r" % e, which="append")
    # ---------------- (1) nothing leaks ----------------
    for k, img in enumerate(images):
        for n, d in model:
            for w in _windows(d):
                if w in img:
                    viol("plaintext_in_archive", "image", "archive %d contains a 24-byte window of member %r in the clear" % (k, n), which=k)
                    break
        try:
            a = ref7z.read(img, password, decode_data=False)
        except Exception as e:
            viol("reference_reader_failed", "ref7z", "reference reader cannot parse archive %d with the right password: %r" % (k, e))
            continue
        has_aes = bool(a.ivs) or any(c["id"] == RC.M_AES for f in (a.main["folders"] if a.main and a.main["folders"] else []) for c in f["coders"])
        folders = a.main["folders"] if a.main and a.main["folders"] else []
        pi = a.main["packinfo"] if a.main else None
        pos = 32 + (pi["packpos"] if pi else 0)
        for fi, f in enumerate(folders):
            size = pi["sizes"][fi] if pi and fi < len(pi["sizes"]) else 0
            packed = img[pos:pos + size]
            pos += size
            coders = [c for c in f["coders"]]
            if not any(c["id"] == RC.M_AES for c in coders):
                viol("folder_not_encrypted", "image", "archive %d: folder %d has coders %r - no 7zAES coder although a password was given (chain %s)" % (
                    k, fi, [RC.NAMES.get(c["id"]) for c in coders], fam), which=k)
            # keyless decode: the chain minus the AES coder
            data = packed
            try:
                n = len(coders)
                out2in = {o: i for i, o in f["bind"]}
                cur = f["packed"][0]
                while True:
                    c = coders[cur]
                    if c["id"] != RC.M_AES:
                        data = RC.decode(c["id"], c["props"], data, f["unpacksizes"][cur], None)
                    if cur in out2in:
                        cur = out2in[cur]
                    else:
                        break
            except Exception:
                data = b""
            for nme, d in model:
                if any(w in data for w in _windows(d)):
                    viol("plaintext_decodable_without_key", "image", "archive %d: folder %d decodes to member %r's plaintext without any key" % (k, fi, nme), which=k)
                    break
        if sess["header"] == "crypt":
            for nme, _ in model:
                for enc in ("utf-16-le", "utf-8"):
                    if nme.encode(enc) in img:
                        viol("name_in_archive", "image", "header encryption on, yet member name %r occurs in the archive (%s)" % (nme, enc), which=k)
            try:
                b = ref7z.read(img, None, decode_data=False)
                if any(m.name for m in b.members):
                    viol("names_listable_without_key", "ref7z", "header encryption on, yet the reference reader lists %r without a key" % [m.name for m in b.members][:3], which=k)
            except Exception:
                pass
        res["probes"]["aes_coder_present"] = 1 if has_aes else 0
    # ---------------- (2) IV hygiene ----------------
    ivs = []
    cts = []
    for img in images:
        try:
            a = ref7z.read(img, password, decode_data=True)
            ivs.append(list(a.ivs))
            pi = a.main["packinfo"] if a.main else None
            cts.append(img[32:32 + (a.data_end or 0)])
        except Exception:
            ivs.append([])
            cts.append(b"")
    flat = [bytes(iv) for l in ivs for iv in l]
    if len(flat) != len(set(flat)):
        viol("iv_reused", "image", "initialisation vectors are not pairwise distinct across the two archives: %r" % [iv.hex() for iv in flat])
    if any(iv == bytes(len(iv)) for iv in flat):
        viol("iv_reused", "image", "an all-zero initialisation vector is used")
    if cts[0] and cts[0] == cts[1]:
        viol("ciphertext_repeats", "image", "two archives of the same input and password share their ciphertext")
    res["extra"]["iv_draws_from_seam"] = len(rand.draws)
    # ---------------- (3) key required ----------------
    img = images[0]
    total = sum(len(d) for d in plain.values())
    budget = rw.read_budget(len(img), total)
    wpw = _wrong_password(password, case["wrong"])
    for label, pw in (("none", None), (case["wrong"], wpw), ("right", password)):
        if label != "right" and pw == password:
            continue
        fs = SimFS()
        fs.add(rsess.READ_PATH, img)
        outcome = None
        got = None
        try:
            with StepCounter(budget) as sc:
                with Seams(fs=fs, inline_threads=True):
                    try:
                        target = rsess.READ_PATH if case["open"] == "path" else SimRaw(fs.get(rsess.READ_PATH), readable=True, anonymous=case["open"] == "anon")
                        z = py7zr.SevenZipFile(target, "r", password=pw)
                        try:
                            names = z.getnames()
                            fac = rw.make_factory()
                            z.extractall(factory=fac)
                            got = fac.result()
                            outcome = "delivered"
                        finally:
                            try:
                                z.close()
                            except Exception:
                                pass
                    except Exception as e:
                        outcome = e
            res["sim_steps"] += sc.steps
        except StepBudgetExceeded:
            viol("call_never_returns", "read", "reading with password class %r exceeded the step budget" % label, pw=label)
            continue
        if label == "right":
            if outcome != "delivered" or got != plain:
                viol("right_password_fails", "read", "reading with the right password: %r" % (outcome if outcome != "delivered" else "content differs"))
        elif label == "none":
            if outcome == "delivered":
                viol("delivered_without_password", "read", "extractall without a password delivered %d members" % len(got), pw=label)
            elif not isinstance(outcome, py7zr.exceptions.PasswordRequired):
                viol("wrong_exception_without_password", "read", "without a password the failure is %r, not PasswordRequired" % outcome, pw=label, error=type(outcome).__name__)
        else:
            if outcome == "delivered":
                bad = [n for n, d in got.items() if plain.get(n) != d]
                if bad:
                    viol("wrong_bytes_delivered", "read", "wrong password (%s) delivered different bytes for %r" % (label, bad[:2]), pw=label)
                else:
                    viol("delivered_with_wrong_password", "read", "wrong password (%s: %r vs %r) was accepted and delivered the members" % (label, pw, password), pw=label)
        res["faults"]["password_" + label] = 1
    pclass = "empty" if password == "" else ("astral" if any(ord(ch) > 0xFFFF for ch in password) else ("ascii" if password.isascii() else "bmp"))
    res["sigs"].append(([fam, sess["header"], sess["header_via"], pclass, case["wrong"]], bool(res["probes"].get("aes_coder_present"))))
    res["classes"]["%s|%s" % (fam, sess["header"])] = 1
    res["digest"] = digest_of([images, [v["detail"] for v in res["violations"]]])
    res["sample"] = {"chain": sess["chain"], "header": sess["header"], "header_via": sess["header_via"], "password_class": pclass, "wrong": case["wrong"],
                     "members": [(n, len(d)) for n, d in model], "ivs": [[iv.hex() for iv in l] for l in ivs]}
    return res


def shrink_candidates(case):
    import copy

    ops = case["session"]["ops"]
    for i in range(len(ops) - 1, -1, -1):
        if len(ops) > 1:
            c = copy.deepcopy(case)
            del c["session"]["ops"][i]
            yield c
    if case["session"]["header"] == "enc":
        c = copy.deepcopy(case)
        c["session"]["header"] = "raw"
        yield c
    if case["open"] != "stream":
        c = copy.deepcopy(case)
        c["open"] = "stream"
        yield c


def case_class(case):
    return gen.dep_flags([case["session"].get("chain")], None, None)
