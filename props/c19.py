"""C19  The command line mirrors the library and its exit status tells the truth.  Engine clisim (DESIGN.md 4, C19):
the CLI runs in-process as the simulated process - Cli().run(argv) with captured stdout/stderr, rebound getpass, seeded
cwd - and its exit status is computed exactly as ``python -m py7zr`` would report it."""
import contextlib
import io
import os
import shutil

from props import c04, rsess
from simkit import driver, gen, rw, tree
from simkit.prng import Rng
from simkit.seams import REPO, Seams, SimClock, SimRandom, digest_of, import_py7zr

import ref7z

PROPERTY = "C19"
ENGINE = "clisim"
LEVEL = "exploration"
RULE = ("case = seeded scenario run through the in-process CLI: (roundtrip) tree of C02 -> 'c' (archive name with/without .7z, cwd seeded) -> 'l' and "
        "'l --verbose' compared with the library's list()/archiveinfo() -> 't' -> 'x' (output directory given or not) compared with the source tree -> "
        "'a' of a second tree -> 'x' again (earlier members undisturbed); (volumes) 'c -v SIZE' over the grammar the help describes (digits with and "
        "without b/k/m/g, either case, plus invalid sizes), volumes reassembled and read by the library; (faults) archives damaged in the header, in the "
        "data area or truncated, encrypted archives without -P, archives with an unsupported method, non-7z files -> 't' and 'x'. The exit status is "
        "judged by consequence: an 'x' that exits 0 must have produced exactly the model's tree, a 't' that exits 0 must be on an image whose members "
        "the reference reader recovers intact, an image that is intact must give 0; 'i' exits 0. One evaluation = one CLI invocation. "
        "distinct = (subcommand, option vector, archive/tree class, fault class).")
ASSUMPTIONS = ["in-process execution is equivalent to 'python -m py7zr' for exit status: return value -> status, None -> 0, SystemExit(code), uncaught exception -> 1",
               "worker threads of 'x' run under the inline schedule"]
COMPONENTS = {"real": ["py7zr.cli", "py7zr library", "tmpfs", "multivolumefile"], "stub": ["process boundary (argv, exit status, stdout/stderr, getpass)", "cwd", "thread scheduling (inline)"]}

UNSUPPORTED = ["lzma_bcj2_1.7z", "lz4.7z", "zstdmt-brotli.7z", "lzma2bcj2.7z"]


def plan(tier):
    if tier == "thorough":
        return {"n": None, "budget_s": int(os.environ.get("VERIF_BUDGET_S", "900")), "case_timeout": 300}
    return {"n": 2500, "budget_s": 170, "case_timeout": 120}


SIZES_OK = ["100", "1000", "4096", "64b", "100B", "1k", "1K", "2k", "10K", "1m", "1M", "1g", "1G", "65536", "300b"]
SIZES_BAD = ["10x", "k", "1kb", "-5", "1.5k", "", "10 k"]


def gen_case(rng: Rng, i: int, tier: str):
    r = rng.sub("k")
    kind = r.wpick([(4, "roundtrip"), (2, "volumes"), (4, "faults"), (3, "foreign")])
    t = tree.gen_tree(r, maxdepth=3, nmax=8, name_style=r.pick(["ascii", "bmp", "ascii"]), links=r.chance(0.4), block=32768, maxlen=4000)
    case = {"kind": kind, "tree": t, "arcname_ext": r.chance(0.5), "odir": r.chance(0.6), "verbose": r.chance(0.3), "rng": r.randrange(1 << 30)}
    case["odir_omit"] = r.chance(0.5)  # no output directory: '.' given, or the argument left out altogether
    if kind == "foreign":
        # an archive of the independent reference writer (any layout 7-Zip may produce: no packed streams at all, members
        # without attributes or times, several folders, ...), intact or damaged, through 'l', 't' and 'x'
        from props import c06

        c = c06.gen_case(rng.sub("ref"), i, tier)
        if "members" in c:
            case["ref"] = {"members": c["members"], "layout": c["layout"]}
            case["fault"] = r.wpick([(5, "none"), (2, "flip_data"), (2, "flip_header"), (1, "truncate")])
            case["fseed"] = r.randrange(1 << 30)
            case["tree"] = []
            if case["fault"] != "none":
                # damage can only be noticed where a checksum covers it (C04): per-member or per-folder CRCs, header CRC
                if case["ref"]["layout"].get("crc") in ("none", "folder_partial"):
                    case["ref"]["layout"]["crc"] = r.pick(["substream", "folder"])
                case["ref"]["layout"]["header_crc"] = True
                for fo in case["ref"]["layout"]["folders"]:
                    fo.pop("orphan", None)  # data that belongs to no member: damage there harms nobody
            return case
        case["kind"] = kind = "roundtrip"
    if kind == "roundtrip":
        case["password"] = ("pw-%d" % r.randrange(1000)) if r.chance(0.3) else None
        case["tree2"] = tree.gen_tree(r, maxdepth=2, nmax=4, name_style="ascii", links=False, block=32768, maxlen=2000)
        case["dotname"] = r.chance(0.3)
        case["append_two"] = rng.sub("a2").chance(0.5)
        case["odir_link"] = rng.sub("olink").chance(0.3)
        # a source that cannot be archived (absent, or a link to nothing): the operation did not succeed, whatever else it stored
        case["bad_src"] = rng.sub("badsrc").pick([None, None, "absent", "absent_first", "dangling"])
    elif kind == "volumes":
        case["size"] = r.pick(SIZES_OK) if r.chance(0.75) else r.pick(SIZES_BAD)
    else:
        case["fault"] = r.wpick([(3, "flip_data"), (3, "flip_header"), (2, "truncate"), (2, "no_password"), (1, "wrong_password"), (2, "unsupported"), (1, "not7z"), (2, "none"),
                                 (2, "flip_multi"), (2, "decoder_error_multi")])
        case["fseed"] = r.randrange(1 << 30)
        case["cmd"] = r.pick(["t", "x"])
    return case


def run_cli(py7zr, argv, cwd, password=None):
    """Returns (exit status, stdout, stderr) exactly as ``python -m py7zr <argv>`` would produce them."""
    import py7zr.cli as cli

    out, err = io.StringIO(), io.StringIO()
    cwd0 = os.getcwd()
    os.chdir(cwd)
    saved = cli.getpass.getpass
    cli.getpass.getpass = lambda prompt="Password: ", stream=None: password if password is not None else ""
    status = None
    try:
        with contextlib.redirect_stdout(out), contextlib.redirect_stderr(err):
            try:
                rv = cli.Cli().run(list(argv))
                status = 0 if rv is None else (rv if isinstance(rv, int) else 1)
            except SystemExit as e:
                code = e.code
                status = 0 if code is None else (code if isinstance(code, int) else 1)
            except BaseException as e:  # uncaught exception: the interpreter prints a traceback and exits 1
                err.write("Traceback: %r\n" % e)
                status = 1
    finally:
        cli.getpass.getpass = saved
        os.chdir(cwd0)
    return status, out.getvalue(), err.getvalue()


def _tree_ok(root, entries):
    want = tree.expected_snapshot(entries)
    try:
        got = tree.snapshot(root)
    except OSError as e:
        return "cannot walk %s: %r" % (root, e)
    if set(want) != set(got):
        return "paths differ: missing %r unexpected %r" % (sorted(set(want) - set(got))[:3], sorted(set(got) - set(want))[:3])
    for k in sorted(want):
        w, g = want[k], got[k]
        if w[0] != g[0] or w[1] != g[1]:
            return "%r differs (%s)" % (k, w[0])
        if w[0] != "link" and (w[2] != g[2] or abs(w[3] - g[3]) > 5000):
            return "%r: mode/mtime differ (%o/%d vs %o/%d)" % (k, w[2], w[3], g[2], g[3])
    return None


def run_case(case):
    py7zr = import_py7zr()
    res = {"evals": 0, "violations": [], "faults": {}, "probes": {}, "rejected": {}, "classes": {}, "sigs": [], "extra": {}}
    scratch = os.path.join(driver.worker_scratch(), "c19")
    if os.path.isdir(scratch):
        tree.make_removable(scratch)
    shutil.rmtree(scratch, ignore_errors=True)
    work = os.path.join(scratch, "work")
    os.makedirs(work)
    tree.build_tree(os.path.join(work, "src"), case["tree"])
    log = []
    cls = {"kind": case["kind"]}
    cls.update(case_class(case))

    def viol(oracle, site, detail, **extra):
        c = dict(cls)
        c.update(extra)
        res["violations"].append({"fp": {"oracle": oracle, "site": site, "class": c}, "detail": detail})

    def cli(argv, password=None, cwd=work):
        res["evals"] += 1
        st, out, err = run_cli(py7zr, argv, cwd, password)
        log.append(([a.replace(scratch, "$S") if isinstance(a, str) else a for a in argv], st))
        return st, out, err

    try:
        with Seams(inline_threads=True, clock=SimClock(tick=0.001), rand=SimRandom(Rng(case["rng"], "iv"))):
            if case["kind"] == "roundtrip":
                base = "release-1.2" if case.get("dotname") else "arc"
                arcarg = base + ".7z" if case["arcname_ext"] else base
                arc = os.path.join(work, base + ".7z")
                pw = case.get("password")
                st, out, err = cli(["c"] + (["-P"] if pw else []) + [arcarg, "src"], password=pw)
                if st != 0 or not os.path.exists(arc):
                    viol("create_failed", "c", "'c %s src' exit %r, archive %s exists=%r; stderr %r" % (arcarg, st, base + ".7z", os.path.exists(arc), err[-200:]), dotname=bool(case.get("dotname")))
                    return res
                has_data = any(e["kind"] != "dir" for e in case["tree"])
                if pw and has_data:
                    # without -P an encrypted archive must not extract
                    odir0 = os.path.join(scratch, "out0")
                    os.makedirs(odir0)
                    st, out, err = cli(["x", arc, odir0])
                    if st == 0:
                        viol("exit_0_on_failure", "x", "'x' without -P exited 0 on an archive created with 'c -P'", fault="no_password")
                with py7zr.SevenZipFile(arc, password=pw) as z:
                    libnames = z.getnames()
                    info = z.archiveinfo()
                    liblist = z.list()
                st, out, err = cli(["l", base + ".7z"] + (["--verbose"] if case["verbose"] else []))
                if st != 0:
                    viol("list_failed", "l", "'l' on an intact archive exit %r: %r" % (st, (out + err)[-200:]))
                else:
                    lines = out.splitlines()
                    seps = [k for k, ln in enumerate(lines) if ln.startswith("-------------------")]
                    listed = lines[seps[0] + 1:seps[1]] if len(seps) >= 2 else []
                    got_names = [ln[53:] for ln in listed]
                    if got_names != libnames:
                        viol("list_differs", "l", "'l' lists %r, the library reports %r" % (got_names[:5], libnames[:5]))
                    if ("total %d files and directories" % len(libnames)) not in out:
                        viol("list_differs", "l", "'l' does not report %d files and directories" % len(libnames))
                    if case["verbose"]:
                        if ("Method = " + ", ".join(info.method_names)) not in out or ("Blocks = %d" % info.blocks) not in out or ("Solid = " + ("+" if info.solid else "-")) not in out:
                            viol("list_differs", "l --verbose", "archive summary differs from archiveinfo(): %r" % [ln for ln in lines if " = " in ln][:8])
                st, out, err = cli(["t", base + ".7z"])
                if st != 0 and not pw:
                    viol("intact_archive_fails", "t", "'t' on an intact archive exit %r: %r" % (st, (out + err)[-200:]))
                if st == 0 and pw and has_data:
                    viol("exit_0_on_failure", "t", "'t' (which cannot ask for a password) exited 0 on an encrypted archive", fault="no_password")
                odir = os.path.join(scratch, "out1")
                os.makedirs(odir)
                odir_arg = odir
                if case["odir"] and case.get("odir_link"):
                    # the output directory named relatively and reached through a symbolic link to a directory
                    os.symlink(odir, os.path.join(work, "lnk-out"))
                    odir_arg = "lnk-out"
                st, out, err = cli(["x"] + (["-P"] if pw else []) + [arc] + (([] if case.get("odir_omit") else ["."]) if not case["odir"] else [odir_arg]) + (["--verbose"] if case["verbose"] else []),
                                   cwd=odir if not case["odir"] else work, password=pw)
                if st != 0:
                    viol("intact_archive_fails", "x", "'x' of an intact archive exit %r: %r" % (st, (out + err)[-300:]))
                else:
                    why = _tree_ok(os.path.join(odir, "src"), case["tree"])
                    if why:
                        viol("extracted_tree_differs", "c+x", "after c then x: %s" % why)
                if pw:
                    res["probes"]["password_roundtrip"] = 1
                    res["sigs"].append((["roundtrip-password", case["arcname_ext"], case["odir"], len(case["tree"])], True))
                    raise _Done()
                # append a second tree
                tree.build_tree(os.path.join(work, "more"), case["tree2"])
                two_args = bool(case.get("append_two"))
                if two_args:
                    with open(os.path.join(work, "three.txt"), "w") as f3:
                        f3.write("third argument\n")
                    os.utime(os.path.join(work, "three.txt"), (1000000000, 1000000000))
                st, out, err = cli(["a", base + ".7z", "more"] + (["three.txt"] if two_args else []))
                if st != 0:
                    viol("append_failed", "a", "'a' exit %r: %r" % (st, (out + err)[-300:]))
                else:
                    odir2 = os.path.join(scratch, "out2")
                    os.makedirs(odir2)
                    st, out, err = cli(["x", arc, odir2])
                    if st != 0:
                        viol("intact_archive_fails", "x", "'x' after 'a' exit %r: %r" % (st, (out + err)[-300:]), after_append=True)
                    else:
                        for name, ent in (("src", case["tree"]), ("more", case["tree2"])):
                            why = _tree_ok(os.path.join(odir2, name), ent)
                            if why:
                                viol("extracted_tree_differs", "c+a+x", "after c, a, x: %s: %s" % (name, why), after_append=True)
                                break
                        if two_args and not os.path.isfile(os.path.join(odir2, "three.txt")):
                            viol("extracted_tree_differs", "c+a+x", "'a' with two sources exited 0 but the second one (three.txt) is not in the archive", after_append=True)
                if case.get("bad_src"):
                    bad = "no-such-source"
                    if case["bad_src"] == "dangling":
                        bad = "to-nowhere"
                        os.symlink("nothing-here", os.path.join(work, bad))
                    srcs = [bad, "src"] if case["bad_src"] == "absent_first" else ["src", bad]
                    for cmd, name in (("c", "second.7z"), ("a", base + ".7z")):
                        st, out, err = cli([cmd, name] + srcs)
                        if st == 0:
                            viol("exit_0_on_failure", cmd, "'%s %s %s' exited 0 although %r cannot be archived (%s)" % (cmd, name, " ".join(srcs), bad, case["bad_src"]), fault="bad_source")
                st, out, err = cli(["i"])
                if st != 0 or "7zAES" not in out:
                    viol("info_failed", "i", "'i' exit %r" % st)
                res["sigs"].append((["roundtrip", case["arcname_ext"], case["odir"], case["verbose"], case.get("dotname"), len(case["tree"])], True))
            elif case["kind"] == "volumes":
                size = case["size"]
                valid = size in SIZES_OK
                arcarg = "vol.7z" if case["arcname_ext"] else "vol"
                st, out, err = cli(["c", "-v", size, arcarg, "src"])
                cls["size"] = size
                if valid:
                    vols = sorted(f for f in os.listdir(work) if f.startswith("vol.7z."))
                    if st != 0 or not vols:
                        viol("volume_size_rejected", "c -v", "'c -v %s' (a size the help describes) exit %r, volumes %r; stderr %r" % (size, st, vols[:3], err[-200:]), unit=size.lstrip("0123456789") or "none")
                    else:
                        blob = b"".join(open(os.path.join(work, v), "rb").read() for v in vols)
                        mult = {"": 1, "b": 1, "k": 1024, "m": 1 << 20, "g": 1 << 30}[size.lstrip("0123456789").lower()]
                        limit = int(size.rstrip("bBkKmMgG")) * mult
                        if any(os.path.getsize(os.path.join(work, v)) > limit for v in vols):
                            viol("volume_too_large", "c -v", "a volume exceeds %d bytes" % limit)
                        st2, out2, err2 = cli(["l", vols[0]])
                        joined = os.path.join(scratch, "joined.7z")
                        with open(joined, "wb") as f:
                            f.write(blob)
                        odir = os.path.join(scratch, "outv")
                        os.makedirs(odir)
                        try:
                            with py7zr.SevenZipFile(joined) as z:
                                z.extractall(path=odir)
                            why = _tree_ok(os.path.join(odir, "src"), case["tree"])
                        except Exception as e:
                            why = "reassembled volumes do not extract: %r" % e
                        if why:
                            viol("volumes_do_not_reassemble", "c -v", "size %s: %s" % (size, why))
                        else:
                            with py7zr.SevenZipFile(joined) as z:
                                vnames = z.getnames()
                            lines2 = out2.splitlines()
                            seps = [k for k, ln in enumerate(lines2) if ln.startswith("-------------------")]
                            got2 = [ln[53:] for ln in lines2[seps[0] + 1:seps[1]]] if len(seps) >= 2 else None
                            if st2 != 0 or got2 != vnames:
                                viol("list_differs", "l (volumes)", "'l %s' exit %r lists %r, the library reports %r" % (vols[0], st2, (got2 or [])[:4], vnames[:4]))
                else:
                    if st == 0:
                        viol("invalid_size_accepted", "c -v", "'c -v %r' exited 0" % size)
                res["sigs"].append((["volumes", size, case["arcname_ext"]], True))
            elif case["kind"] == "foreign":
                foreign(py7zr, case, work, scratch, cli, viol, res)
            else:
                self_faults(py7zr, case, work, scratch, cli, viol, res)
        return _finish(res, case, log)
    except _Done:
        return _finish(res, case, log)
    finally:
        tree.make_removable(scratch)
        shutil.rmtree(scratch, ignore_errors=True)


class _Done(Exception):
    pass


def _finish(res, case, log):
    if True:
        res["digest"] = digest_of(log)
        res["classes"][case["kind"] + ":" + str(case.get("fault", case.get("size", "")))] = 1
        res["sample"] = {"kind": case["kind"], "invocations": log[:8], "tree": [(e["path"], e["kind"]) for e in case["tree"]][:6], "fault": case.get("fault"), "size": case.get("size")}
        return res


def self_faults(py7zr, case, work, scratch, cli, viol, res):
    r = Rng(case["fseed"], "f")
    fault = case["fault"]
    cmd = case["cmd"]
    password = None
    arc = os.path.join(work, "f.7z")
    model_entries = case["tree"]
    if fault == "unsupported":
        shutil.copy(os.path.join(REPO, "tests", "data", r.pick(UNSUPPORTED)), arc)
        img = open(arc, "rb").read()
        intact, recoverable = False, False
    elif fault == "not7z":
        with open(arc, "wb") as f:
            f.write(r.bytes_(r.randint(0, 200)))
        intact, recoverable = False, False
    else:
        kw = {}
        if fault in ("no_password", "wrong_password"):
            password = "secret-" + str(r.randrange(1000))
            kw["password"] = password
        cwd0 = os.getcwd()
        os.chdir(work)
        try:
            with py7zr.SevenZipFile(arc, "w", **kw) as z:
                if fault == "decoder_error_multi":
                    # one data member per folder: whatever a worker created before its decoder failed is "there" for the
                    # metadata pass, so nothing else but the worker's error can turn the exit status
                    z.writestr(r.bytes_(40000), "one.bin")
                else:
                    z.writeall("src")
            if fault == "decoder_error_multi":
                with py7zr.SevenZipFile(arc, "a") as z:
                    z.writestr(b"second folder " * 20, "second.txt")
                model_entries = None
            if fault == "flip_multi":
                with py7zr.SevenZipFile(arc, "a") as z:
                    z.writestr(b"second folder " * 20, "second.txt")
                model_entries = None
        finally:
            os.chdir(cwd0)
        img = open(arc, "rb").read()
        a = ref7z.read(img, password)
        pristine = [(m.name, m.data) for m in a.members]
        if fault in ("flip_data", "flip_multi") and a.data_end:
            off = 32 + r.randrange(a.data_end)
            if fault == "flip_multi" and a.main and len(a.main["packinfo"]["sizes"]) > 1:
                off = 32 + r.randrange(max(1, a.main["packinfo"]["sizes"][0]))  # damage in a folder that is not the last one
            d = bytearray(img)
            d[off] ^= 1 << r.randrange(8)
            img = bytes(d)
        elif fault == "decoder_error_multi":
            # the first byte of the first folder's stream becomes an LZMA2 control byte no stream may start with: the decoder
            # itself raises (not a CRC mismatch), in whichever worker reads that folder
            d = bytearray(img)
            d[32 + (a.main["packinfo"]["packpos"] if a.main else 0)] = 0x03
            img = bytes(d)
        elif fault == "flip_header":
            lo = 32 + (a.data_end or 0)
            off = r.randrange(8, 32) if r.chance(0.2) else r.randrange(lo, len(img))
            d = bytearray(img)
            d[off] ^= 1 << r.randrange(8)
            img = bytes(d)
        elif fault == "truncate":
            img = img[: r.randrange(len(img))]
        with open(arc, "wb") as f:
            f.write(img)
        # consequence-based truth: can the original members still be read back from this image?
        recoverable = _recoverable(py7zr, img, password, pristine, strict=True)
        intact = fault == "none"
    res["faults"][fault] = 1
    odir = os.path.join(scratch, "outf")
    os.makedirs(odir)
    use_pw = None
    argv = [cmd, arc] + ([odir] if cmd == "x" else [])
    if fault == "wrong_password" and cmd == "x":
        argv.insert(1, "-P")
        use_pw = "not-the-password"
    st, out, err = cli(argv, password=use_pw)
    needs_pw = False
    if fault in ("no_password", "wrong_password"):
        # the archive needs the password iff something is actually encrypted: a non-empty AES folder or the header
        aes_data = any(c["id"] == ref7z.codecs.M_AES for f in (a.main["folders"] if a.main and a.main["folders"] else []) for c in f["coders"]
                       if ref7z.reader.folder_unpack_size(f) > 0)
        aes_hdr = any(ref7z.codecs.M_AES in hc for hc in (a.header_coders or []))
        needs_pw = bool(aes_data or aes_hdr)
    must_fail = fault in ("unsupported", "not7z") or needs_pw or (fault in ("flip_data", "flip_header", "truncate", "flip_multi", "decoder_error_multi") and not recoverable)
    c = {"fault": fault, "cmd": cmd}
    if must_fail and st == 0:
        viol("exit_0_on_failure", cmd, "'%s' exited 0 on an archive with fault %r (members not recoverable); output %r" % (cmd, fault, (out + err)[-200:]), **c)
    if intact and st != 0:
        viol("intact_archive_fails", cmd, "'%s' on an intact archive exit %r: %r" % (cmd, st, (out + err)[-300:]), **c)
    if st == 0 and cmd == "x" and model_entries is not None and fault not in ("unsupported", "not7z"):
        why = _tree_ok(os.path.join(odir, "src"), model_entries)
        if why:
            viol("exit_0_with_wrong_tree", "x", "'x' exited 0 but the extracted tree differs: %s (fault %r)" % (why, fault), **c)
    if st == 0 and cmd == "t" and fault not in ("none",) and not recoverable:
        viol("exit_0_on_failure", "t", "'t' exited 0 although the members are not recoverable (fault %r)" % fault, **c)
    res["sigs"].append((["faults", fault, cmd, recoverable], True))
    res["probes"]["damaged_but_recoverable"] = 1 if (fault.startswith("flip") or fault == "truncate") and recoverable else 0
    res["probes"]["must_fail_cases"] = 1 if must_fail else 0


def _recoverable(py7zr, img, password, pristine, strict, skip_ref=False):
    """True when the original members (name, bytes) can be read back from ``img``: by the independent reference reader, or -
    second opinion, because a one-shot decoder rejects a stream whose trailer is damaged although every member byte and its
    CRC are intact - by the library itself delivering exactly the original bytes under the original names."""
    if not skip_ref:
        try:
            b = ref7z.read(img, password)
            if not b.undecoded and (not strict or not ref7z.enforced_issues(b)) and [(m.name, m.data) for m in b.members] == pristine:
                return True
        except Exception:
            pass
    try:
        with py7zr.SevenZipFile(io.BytesIO(img), password=password) as z:
            names = z.getnames()
            fac = rw.make_factory()
            z.extractall(factory=fac)
            got = fac.result()
        want = {n: d for n, d in pristine if d is not None}
        return names == [n for n, _ in pristine] and got == want
    except Exception:
        return False


def case_class(case):
    if "ref" in case:
        return gen.dep_flags([[{"id": f["id"]} for f in fo["chain"]] for fo in case["ref"]["layout"]["folders"]], None, None)
    return {}


def foreign(py7zr, case, work, scratch, cli, viol, res):
    from props import rsess

    r = Rng(case["fseed"], "f")
    fault = case["fault"]
    built = rsess.build_from_ref(case["ref"])
    if built.error is not None or built.image is None:
        res["rejected"]["reference_writer"] = 1
        return
    pw = built.password
    img = built.image
    a = built.ref
    pristine = [(m.name, m.data) for m in a.members]
    if fault == "flip_data" and a.data_end:
        d = bytearray(img)
        d[32 + r.randrange(a.data_end)] ^= 1 << r.randrange(8)
        img = bytes(d)
    elif fault == "flip_header":
        lo = 32 + (a.data_end or 0)
        d = bytearray(img)
        d[r.randrange(8, 32) if r.chance(0.2) or lo >= len(img) else r.randrange(lo, len(img))] ^= 1 << r.randrange(8)
        img = bytes(d)
    elif fault == "truncate":
        img = img[: r.randrange(len(img))]
    damaged = img != built.image
    # judged by consequence: the damage matters when the original members can no longer be read back (a flipped bit in
    # stream padding that only a pack-stream CRC covers, which neither 7-Zip nor py7zr verify on 't', does not).  The
    # reference reader is not asked to decode damaged PPMd data: pyppmd may crash on it (10.5), in the harness as well.
    ppmd = any(f["id"] == "PPMD" for fo in case["ref"]["layout"]["folders"] for f in fo["chain"])
    recoverable = _recoverable(py7zr, img, pw, pristine, strict=False, skip_ref=ppmd and damaged) if damaged else True
    arc = os.path.join(work, "f.7z")
    with open(arc, "wb") as f:
        f.write(img)
    res["faults"]["foreign_" + fault] = 1
    c = {"fault": fault, "source": "reference writer"}

    def lib(fn, password):
        try:
            with py7zr.SevenZipFile(arc, password=password) as z:
                return ("ok", fn(z))
        except Exception as e:
            return ("raised", type(e).__name__)

    # 'l': the members the library reports
    lv = lib(lambda z: z.getnames(), None)
    st, out, err = cli(["l", "f.7z"])
    if lv[0] == "ok":
        lines = out.splitlines()
        seps = [k for k, ln in enumerate(lines) if ln.startswith("-------------------")]
        got_names = [ln[53:] for ln in lines[seps[0] + 1:seps[1]]] if len(seps) >= 2 else None
        if st != 0 or got_names != lv[1]:
            viol("list_differs", "l", "'l' exit %r lists %r, the library reports %r; %r" % (st, (got_names or [])[:4], lv[1][:4], err[-200:]), **c)
    elif st == 0:
        viol("exit_0_on_failure", "l", "'l' exited 0 on an archive the library refuses to open (%s)" % lv[1], **c)
    # 't': the library's verdict without a password
    tv = lib(lambda z: z.testzip(), None)
    lib_good = tv == ("ok", None)
    st, out, err = cli(["t", "f.7z"])
    if (st == 0) != lib_good:
        viol("exit_0_on_failure" if st == 0 else "intact_archive_fails", "t", "'t' exit %r, the library's testzip() without a password gives %r; %r" % (st, tv, (out + err)[-300:]), **c)
    if st == 0 and damaged and not recoverable:
        viol("exit_0_on_failure", "t", "'t' exited 0 although the members are not recoverable (fault %r)" % fault, **c)
    # 'x': the library's extractall with the same password
    odl, odc = os.path.join(scratch, "outl"), os.path.join(scratch, "outc")
    os.makedirs(odl)
    os.makedirs(odc)
    xv = lib(lambda z: z.extractall(path=odl), pw)
    omit = case.get("odir_omit") and not case["odir"]
    st, out, err = cli(["x"] + (["-P"] if pw is not None else []) + [arc] + ([] if omit else [odc]), password=pw, cwd=odc if omit else work)
    if (st == 0) != (xv[0] == "ok"):
        viol("exit_0_on_failure" if st == 0 else "intact_archive_fails", "x", "'x' exit %r, the library's extractall gives %r; %r" % (st, xv, (out + err)[-300:]), **c)
    elif st == 0:
        tl, tc = rsess.snapshot_tree(odl), rsess.snapshot_tree(odc)
        if tl != tc:
            diff = sorted(k for k in set(tl) | set(tc) if tl.get(k) != tc.get(k))
            viol("extracted_tree_differs", "x", "'x' and extractall produce different trees: %r" % diff[:4], **c)
        if damaged and not recoverable:
            viol("exit_0_on_failure", "x", "'x' exited 0 although the members are not recoverable (fault %r)" % fault, **c)
    main = a.main
    res["sigs"].append((["foreign", fault, main is None, len(pristine), recoverable, pw is not None], True))
    res["probes"]["foreign_without_packed_streams"] = 1 if main is None or not main.get("folders") else 0
    res["probes"]["foreign_with_symlink_member"] = 1 if any(m.kind == "symlink" for m in a.members) else 0


def shrink_candidates(case):
    import copy

    t = case["tree"]
    for i in range(len(t) - 1, -1, -1):
        e = t[i]
        if any(x["path"].startswith(e["path"] + "/") for x in t) or e["kind"] == "link":
            continue
        if any(x["kind"] == "link" for x in t):
            continue
        if len(t) > 1:
            c = copy.deepcopy(case)
            del c["tree"][i]
            yield c
    for k, v in (("verbose", False), ("odir", True), ("arcname_ext", True), ("dotname", False)):
        if case.get(k) not in (None, v):
            c = copy.deepcopy(case)
            c[k] = v
            yield c
