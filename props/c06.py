"""C06  Reader conformance: any valid 7z layout is read as the format defines it.  Engine rsim, fault-free, archives
from the independent reference writer (DESIGN.md 4, C06)."""
import os
import shutil
import stat
import zlib

from props import hist, rsess
from simkit import driver, gen, rw, tree
from simkit.device import SimFS, SimRaw
from simkit.prng import Rng
from simkit.seams import REPO, Seams, digest_of, import_py7zr
from simkit.steps import StepBudgetExceeded, StepCounter

import ref7z
from ref7z import writer as W

PROPERTY = "C06"
ENGINE = "rsim"
LEVEL = "exploration"
RULE = ("case = seeded logical archive (ordered members of kind file / empty file / directory / symlink with optional mtime/ctime/atime/attributes, "
        "partially defined) x seeded physical layout emitted by the independent reference writer: partition of the non-empty members into 1..k folders "
        "with any supported coder chain per folder, interleaving of empty-stream entries, NumUnpackStream omitted when all 1, CRCs at substream / folder "
        "/ none, packed-stream CRCs on/off, packpos > 0 with filler, kDummy padding, EmptyFile vector, attribute and time vectors all-defined or partial, "
        "header raw / LZMA-encoded / AES-encoded; read by py7zr from a stream (sequential) and by path (worker threads, inline schedule) with seeded "
        "block/chunk knobs; plus the third-party fixtures under tests/data with the expectations the reference reader derives. Oracle: names incl. "
        "order, kinds, sizes, timestamps, attributes and bytes equal the logical archive the writer was given (undefined stays undefined). "
        "One evaluation = one archive read. distinct = layout feature vector; non-trivial = >= 2 layout freedoms differ from what py7zr's writer emits.")
ASSUMPTIONS = ["the reference writer's output is valid 7z (self-check: the strict reference reader accepts it and recovers the logical archive)",
               "only layout freedoms the property lists are generated (no coder orderings 7-Zip never emits)"]
COMPONENTS = {"real": ["py7zr reader", "codec libraries"], "stub": ["archive device", "thread scheduling (inline)", "knobs"], "generator": ["ref7z.writer"]}

CHAINS = [
    [{"id": "COPY"}], [{"id": "LZMA2"}], [{"id": "LZMA"}], [{"id": "BZIP2"}], [{"id": "DEFLATE"}], [{"id": "DEFLATE64"}], [{"id": "ZSTD"}], [{"id": "PPMD", "order": 6, "mem": 1 << 20}],
    [{"id": "BROTLI"}], [{"id": "X86"}, {"id": "LZMA2"}], [{"id": "X86"}, {"id": "LZMA"}], [{"id": "DELTA", "dist": 4}, {"id": "LZMA2"}], [{"id": "ARM"}, {"id": "LZMA2"}],
    [{"id": "PPC"}, {"id": "LZMA"}], [{"id": "SPARC"}, {"id": "LZMA2"}], [{"id": "ARMT"}, {"id": "LZMA2"}], [{"id": "IA64"}, {"id": "LZMA2"}], [{"id": "X86"}, {"id": "COPY"}],
    [{"id": "X86"}, {"id": "ZSTD"}], [{"id": "ARM"}, {"id": "DEFLATE"}],
]

FT0 = 116444736000000000


def plan(tier):
    if tier == "thorough":
        return {"n": None, "budget_s": int(os.environ.get("VERIF_BUDGET_S", "900")), "case_timeout": 300}
    return {"n": 6000, "budget_s": 170, "case_timeout": 120}


def gen_case(rng: Rng, i: int, tier: str):
    r = rng.sub("k")
    if r.chance(0.06):
        fx, pw = r.pick(hist.DECODABLE_FIXTURE_BASES + [("github_14.7z", None), ("github_14_multi.7z", None), ("root_path_arcname.7z", None), ("symlink_2.7z", None)])
        return {"fixture": fx, "open": r.pick(["stream", "path", "anon"]), "read": {"block": r.pick([4096, 32768, 1048576]), "chunk": r.pick([4096, 128000000])}}
    rb = rng.sub("bcjtail")
    if rb.chance(0.04):
        # directed: one solid folder decoded through the alternative branch-converting decoder (X86 in front of a codec other than
        # LZMA2), holding a continuous stream of convertible CALL/JMP instructions cut into members whose last ones are a few
        # bytes long: decoder calls that end one to eight bytes before the end of the folder
        seed_ = rb.randrange(1 << 30)
        sizes = [rb.pick([1000, 4091, 4096, 4097]), rb.pick([0, 5, 10, 16]), rb.randint(1, 8)]
        members, skip = [], 0
        for k, ln in enumerate(sizes):
            if ln == 0:
                continue
            members.append({"name": "bin/part%d.dat" % k, "kind": "file", "content": {"tex": "calls", "len": ln, "seed": seed_, "skip": skip},
                            "mtime": None, "ctime": None, "atime": None, "attrs": None})
            skip += ln
        chain = rb.pick([[{"id": "X86"}, {"id": "LZMA"}], [{"id": "X86"}, {"id": "COPY"}], [{"id": "X86"}, {"id": "ZSTD"}], [{"id": "X86"}, {"id": "DEFLATE"}], [{"id": "X86"}, {"id": "BZIP2"}]])
        layout = {"folders": [{"members": list(range(len(members))), "chain": chain}], "crc": rb.pick(["substream", "folder"]), "packcrc": False, "packpos": 0,
                  "omit_nums": False, "dummy": 0, "dummy_tail": 0, "emptyfile_vector_always": False, "names_first": True, "header": "raw", "password": None,
                  "iv_seed": 1, "no_substreams": False, "header_crc": True}
        return {"members": members, "layout": layout, "open": rb.pick(["stream", "path", "anon"]),
                "read": {"block": rb.pick([4096, 32768, 1048576]), "chunk": rb.pick([4096, 128000000])}}
    rx = rng.sub("exactmib")
    if rx.chance(0.004):
        # directed: a member of exactly 2 or 3 MiB that compresses to almost nothing, read with the default knobs: the decoder hands
        # the whole member out as one piece whose length is a multiple of every internal block size
        members = [{"name": "exact.bin", "kind": "file", "content": {"tex": rx.pick(["zero", "rep"]), "len": rx.pick([2, 3]) << 20, "seed": rx.randrange(1 << 30)},
                    "mtime": None, "ctime": None, "atime": None, "attrs": None}]
        layout = {"folders": [{"members": [0], "chain": [dict(f) for f in rx.pick([[{"id": "LZMA2"}], [{"id": "ZSTD"}], [{"id": "DEFLATE"}], [{"id": "LZMA"}]])]}],
                  "crc": rx.pick(["substream", "folder"]), "packcrc": False, "packpos": 0, "omit_nums": False, "dummy": 0, "dummy_tail": 0,
                  "emptyfile_vector_always": False, "names_first": True, "header": "raw", "password": None, "iv_seed": 1, "no_substreams": False, "header_crc": True}
        return {"members": members, "layout": layout, "open": rx.pick(["stream", "path", "anon"]), "read": {"block": 1048576, "chunk": 128000000}}
    n = r.wpick([(1, 0), (2, 1), (3, 2), (3, 4), (2, 6), (1, 9)])
    members = []
    names = []
    tries = 0
    while len(names) < n and tries < 200:
        tries += 1
        nm = gen.gen_name(r, maxdepth=3, style=r.pick(["ascii", "bmp", "ascii", "dot", "astral"]))
        if any(o.startswith(nm) or nm.startswith(o) for o in names) or len(nm.encode()) > 200:
            continue
        names.append(nm)
    for nm in names:
        kind = r.wpick([(6, "file"), (2, "emptyfile"), (2, "dir"), (1, "symlink")])
        m = {"name": nm, "kind": "file" if kind == "emptyfile" else kind}
        if kind == "file":
            m["content"] = gen.gen_content(r, block=32768, maxlen=3000, minlen=1)
        elif kind == "emptyfile":
            m["content"] = {"tex": "zero", "len": 0, "seed": 0}
        elif kind == "symlink":
            m["target"] = r.pick(["x", "a/b", "../up", "."])
        members.append(m)
    tmode = r.pick(["all", "partial", "none"])
    amode = r.pick(["all", "partial", "none", "all"])
    for m in members:
        for key in ("mtime", "ctime", "atime"):
            want = tmode == "all" or (tmode == "partial" and r.chance(0.5))
            if key != "mtime" and not r.chance(0.3):
                want = False
            m[key] = FT0 + r.randrange(0, 4 * 10 ** 16) if want else None
        unix = r.chance(0.6)
        if amode == "all" or (amode == "partial" and r.chance(0.5)) or m["kind"] == "symlink":
            if m["kind"] == "dir":
                a = 0x10 | (0x8000 | ((stat.S_IFDIR | r.pick([0o755, 0o700, 0o555])) << 16) if unix else 0)
            elif m["kind"] == "symlink":
                a = 0x20 | 0x8000 | ((stat.S_IFLNK | 0o777) << 16)
            else:
                a = r.pick([0x20, 0x21, 0x80, 0x20 | 0x2]) | (0x8000 | ((stat.S_IFREG | r.pick([0o644, 0o600, 0o755, 0o444])) << 16) if unix else 0)
            m["attrs"] = a
        else:
            m["attrs"] = None
    ra = rng.sub("attr0")
    for m in members:
        # attributes that are defined and zero (no ARCHIVE bit, as some writers store them): defined is not the same as non-zero
        if m["kind"] == "file" and m.get("attrs") is not None and ra.chance(0.12):
            m["attrs"] = 0
    # physical layout
    data_idx = [k for k, m in enumerate(members) if m["kind"] in ("file", "symlink") and (m.get("content", {}).get("len", 1) > 0)]
    folders = []
    k = 0
    while k < len(data_idx):
        take = r.randint(1, max(1, len(data_idx) - k)) if r.chance(0.6) else 1
        folders.append({"members": data_idx[k:k + take], "chain": [dict(f) for f in r.pick(CHAINS)]})
        k += take
    password = None
    header = r.wpick([(4, "raw"), (3, "lzma"), (1, "aes")])
    if r.chance(0.15) or header == "aes":
        password = gen.gen_password(r)
        if r.chance(0.6) and folders:
            for f in folders:
                if r.chance(0.7):
                    f["chain"].append({"id": "AES"})
    rs = rng.sub("salt")
    if rs.chance(0.6):
        # key derivation parameters per folder, as other writers choose them: a salt of 1..16 bytes (py7zr and 7-Zip write none) and
        # a cycle count of its own - the key of one folder is not the key of the next
        for f in folders:
            for cdr in f["chain"]:
                if cdr["id"] == "AES" and rs.chance(0.8):
                    cdr["salt_hex"] = rs.randbytes(rs.randint(1, 16)).hex()
                    if rs.chance(0.4):
                        cdr["cycles"] = rs.pick([6, 8, 9, 11])
    layout = {"folders": folders, "crc": r.wpick([(4, "substream"), (2, "folder"), (1, "none")]), "packcrc": r.chance(0.3), "packpos": r.pick([0, 0, 0, 1, 7, 64]),
              "omit_nums": r.chance(0.5), "dummy": r.pick([0, 0, 2, 3, 5, 18]), "dummy_tail": r.pick([0, 0, 4]), "emptyfile_vector_always": r.chance(0.2),
              "names_first": r.chance(0.8), "header": header, "password": password, "iv_seed": r.randrange(256), "no_substreams": r.chance(0.2),
              "header_crc": r.chance(0.8)}
    if len(folders) >= 2 and rng.sub("mixedcrc").chance(0.15):
        # CRCs on both levels at once: single-stream folders keep theirs in UnpackInfo, the other folders' streams in SubStreamsInfo
        layout["crc"] = "mixed"
    rp = rng.sub("partialcrc")
    if len(folders) >= 2 and rp.chance(0.12):
        # folder CRCs for some folders only: a partially defined vector in UnpackInfo
        layout["crc"] = "folder_partial"
        marks = [rp.chance(0.5) for _ in folders]
        if all(marks) or not any(marks):
            marks[0] = not marks[0]
        for f, mk in zip(folders, marks):
            if mk:
                f["nocrc"] = True
    re_ = rng.sub("emptyfolders")
    if re_.chance(0.15):
        # folders that hold no stream at all (NumUnpackStream == 0; py7zr writes one per session that adds only
        # directories), anywhere, also several in a row
        pos = re_.randint(0, len(folders))
        for _ in range(re_.randint(1, 3)):
            folders.insert(pos, {"members": [], "chain": [dict(f) for f in re_.pick([[{"id": "COPY"}], [{"id": "LZMA2"}], [{"id": "LZMA"}]])]})
            if re_.chance(0.3):
                folders[pos]["orphan"] = re_.randint(1, 40)  # ... or data that belongs to no member
            if re_.chance(0.4):
                pos = re_.randint(0, len(folders))
    return {"members": members, "layout": layout, "open": r.pick(["stream", "path", "anon"]),
            "read": {"block": r.pick([16, 4096, 32768, 1048576]), "chunk": r.pick([17, 4096, 128000000])}}


def materialize_members(case):
    out = []
    for m in case["members"]:
        d = dict(m)
        if m["kind"] == "symlink":
            d["data"] = m["target"].encode("utf-8")
        elif m["kind"] == "file":
            d["data"] = gen.materialize(m["content"])
        else:
            d["data"] = None
        out.append(d)
    return out


def feature_vector(case):
    L = case["layout"]
    fams = sorted({"+".join(f["id"] for f in fo["chain"]) for fo in L["folders"]})
    kinds = sorted({m["kind"] if m.get("content", {}).get("len", 1) else "emptyfile" for m in case["members"]})
    solid = any(len(fo["members"]) > 1 for fo in L["folders"])
    feats = {"nfolders": min(len(L["folders"]), 3), "solid": solid, "crc": L["crc"], "packcrc": L["packcrc"], "packpos": L["packpos"] > 0, "omit_nums": L["omit_nums"],
             "dummy": bool(L["dummy"] or L["dummy_tail"]), "efv": L["emptyfile_vector_always"], "header": L["header"], "nosub": L["no_substreams"],
             "attrs": "none" if all(m["attrs"] is None for m in case["members"]) else ("all" if all(m["attrs"] is not None for m in case["members"]) else "partial"),
             "times": "none" if all(m["mtime"] is None for m in case["members"]) else ("all" if all(m["mtime"] is not None for m in case["members"]) else "partial"),
             "interleaved": _interleaved(case), "kinds": kinds, "fams": fams}
    nonpy = sum([feats["nfolders"] > 1 and not _py7zr_like_folders(case), feats["crc"] != "substream", feats["packcrc"], feats["packpos"], feats["omit_nums"],
                 feats["efv"] or "emptyfile" in kinds, feats["nosub"], feats["attrs"] != "all", feats["times"] != "all", feats["interleaved"], L["dummy_tail"] > 0,
                 not L["names_first"]])
    return feats, nonpy


def _py7zr_like_folders(case):
    return False


def _interleaved(case):
    seen_data_after_empty = False
    state = 0
    for m in case["members"]:
        has = m["kind"] in ("file", "symlink") and m.get("content", {}).get("len", 1) > 0
        if has and state == 0:
            state = 1
        elif not has and state == 1:
            state = 2
        elif has and state == 2:
            return True
    return False


def run_case(case):
    py7zr = import_py7zr()
    res = {"evals": 1, "violations": [], "faults": {}, "probes": {}, "rejected": {}, "classes": {}, "sigs": [], "extra": {}, "sim_steps": 0}
    if "fixture" in case:
        with open(os.path.join(REPO, "tests", "data", case["fixture"]), "rb") as f:
            image = f.read()
        password = dict(hist.DECODABLE_FIXTURE_BASES).get(case["fixture"])
        a = ref7z.read(image, password)
        if a.undecoded:
            res["extra"]["fixture_with_unsupported_coder_skipped"] = 1
            res["digest"] = digest_of(["skip"])
            return res
        logical = [{"name": m.name, "kind": m.kind, "data": m.data, "mtime": m.mtime, "ctime": m.ctime, "atime": m.atime, "attrs": m.attributes} for m in a.members]
        feats, nonpy = {"fixture": case["fixture"]}, 2
        cls = {"source": "fixture", "open": case["open"]}
    else:
        logical = materialize_members(case)
        L = dict(case["layout"])
        image = W.build(logical, L)
        password = L.get("password")
        # self-check of the generator: the strict reference reader must accept it and recover the logical archive
        a = ref7z.read(image, password)
        back = [(m.name, m.kind, m.data, m.mtime, m.ctime, m.atime, m.attributes) for m in a.members]
        want_back = [(m["name"], m["kind"], m["data"] if m["kind"] != "dir" else None, m["mtime"], m["ctime"], m["atime"], m["attrs"]) for m in logical]
        if (back != want_back or ref7z.enforced_issues(a)) and any(f["id"] in ("DEFLATE64", "PPMD") for fo in L["folders"] for f in fo["chain"]):
            # the third-party inflate64 / pyppmd encoders do not round-trip some inputs (see known_findings.json): not a valid test archive
            res["extra"]["generator_selfcheck_skipped"] = 1
            res["digest"] = digest_of(["selfcheck-skip"])
            return res
        if back != want_back or ref7z.enforced_issues(a):
            raise RuntimeError("ref7z writer/reader self-check failed: %r %r" % (a.issues[:3], [x[:2] for x in back][:4]))
        feats, nonpy = feature_vector(case)
        cls = {"source": "ref7z", "open": case["open"], "crc": L["crc"], "header": L["header"], "solid": feats["solid"], "multi": len(L["folders"]) > 1,
               "packpos": L["packpos"] > 0, "nosub": bool(L["no_substreams"]), "interleaved": feats["interleaved"], "attrs": feats["attrs"], "times": feats["times"]}
        cls.update(gen.dep_flags([_chain_to_gen(fo["chain"]) for fo in L["folders"]], case["read"]["chunk"], case["read"]["block"]))

    def viol(oracle, site, detail, **extra):
        c = dict(cls)
        c.update(extra)
        res["violations"].append({"fp": {"oracle": oracle, "site": site, "class": c}, "detail": detail})

    total = sum(len(m["data"]) for m in logical if m["data"] is not None)
    budget = rw.read_budget(len(image), total)
    fs = SimFS()
    fs.add(rsess.READ_PATH, image)
    try:
        with StepCounter(budget) as sc:
            with Seams(fs=fs, blocksize=case["read"]["block"], memlimit=case["read"]["chunk"], inline_threads=True):
                target = rsess.READ_PATH if case["open"] == "path" else SimRaw(fs.get(rsess.READ_PATH), readable=True, anonymous=case["open"] == "anon")
                try:
                    z = py7zr.SevenZipFile(target, "r", password=password)
                except Exception as e:
                    viol("valid_archive_rejected", "open", "valid 7z archive does not open: %r" % e, error=type(e).__name__)
                    z = None
                if z is not None:
                    try:
                        _compare(z, logical, viol, case)
                    finally:
                        try:
                            z.close()
                        except Exception:
                            pass
        res["sim_steps"] = sc.steps
    except StepBudgetExceeded as e:
        viol("call_never_returns", "read", "reading a valid archive exceeded %d steps at %s" % (budget, e.args[1] if len(e.args) > 1 else "?"))
    res["sigs"].append((feats, nonpy >= 2))
    res["classes"]["%s|%s" % (cls.get("crc", "fx"), cls.get("header", "fx"))] = 1
    res["probes"]["multi_folder_layout"] = 1 if cls.get("multi") else 0
    res["probes"]["folder_level_crc_layout"] = 1 if cls.get("crc") == "folder" else 0
    res["digest"] = digest_of([image, [v["detail"] for v in res["violations"]]])
    res["sample"] = {"layout_features": feats, "members": [(m["name"], m["kind"], len(m["data"]) if m["data"] is not None else None) for m in logical][:8],
                     "open": case["open"], "read": case["read"], "archive_bytes": len(image)}
    return res


def _chain_to_gen(chain):
    return [{"id": f["id"]} for f in chain]


def _compare(z, logical, viol, case):
    want_names = [m["name"] for m in logical]
    anon = any(n is None for n in want_names)
    try:
        names = z.getnames()
    except Exception as e:
        viol("listing_failed", "getnames", "getnames() raised %r" % e, error=type(e).__name__)
        return
    if not anon and names != [n.replace("\\", "/") for n in want_names]:
        viol("names_differ", "getnames", "archive order %r, py7zr lists %r" % (want_names[:6], names[:6]))
        return
    files = list(z.files)
    for m, f in zip(logical, files):
        isdir = m["kind"] == "dir"
        size = len(m["data"]) if m["data"] is not None else 0
        if bool(f.is_directory) != isdir:
            viol("kind_differs", "files.is_directory", "%r is a %s, py7zr reports is_directory=%r (attributes %r)" % (m["name"], m["kind"], f.is_directory, m["attrs"]),
                 attrs_defined=m["attrs"] is not None)
            return
        if (m["kind"] == "symlink") != bool(f.is_symlink):
            viol("kind_differs", "files.is_symlink", "%r is a %s, py7zr reports is_symlink=%r" % (m["name"], m["kind"], f.is_symlink))
            return
        if f.uncompressed != size:
            viol("size_differs", "files.uncompressed", "%r has %d bytes, py7zr reports %r" % (m["name"], size, f.uncompressed))
            return
        fi = f._file_info
        for key, prop in (("mtime", "lastwritetime"), ("ctime", "creationtime"), ("atime", "lastaccesstime")):
            got = fi.get(prop)
            got = int(got) if got is not None else None
            if got != m[key]:
                viol("timestamp_differs", "files." + prop, "%r: %s stored %r, py7zr reports %r" % (m["name"], key, m[key], got), defined=m[key] is not None)
                return
        if fi.get("attributes") != m["attrs"]:
            viol("attributes_differ", "files.attributes", "%r: attributes stored %r, py7zr reports %r" % (m["name"], m["attrs"], fi.get("attributes")), defined=m["attrs"] is not None)
            return
        if m["data"] is not None and f.crc32 is not None and f.crc32 != zlib.crc32(m["data"]) and size > 0:
            viol("crc_differs", "files.crc32", "%r: crc32 reported %r, content %r" % (m["name"], f.crc32, zlib.crc32(m["data"])))
            return
    # list(): the modification time as a datetime - exactly the stored instant, to the microsecond FILETIME can express
    try:
        import datetime as _dt

        for m, fi in zip(logical, z.list()):
            if m["mtime"] is not None and fi.creationtime is not None:
                want_dt = _dt.datetime(1601, 1, 1, tzinfo=_dt.timezone.utc) + _dt.timedelta(microseconds=m["mtime"] // 10)
                if fi.creationtime != want_dt:
                    viol("timestamp_differs", "list.creationtime", "%r: stored %s, list() reports %s" % (m["name"], want_dt.isoformat(), fi.creationtime.isoformat()), defined=True)
                    return
    except Exception as e:
        viol("listing_failed", "list", "list() raised %r" % e, error=type(e).__name__)
        return
    try:
        fac = rw.make_factory()
        z.extractall(factory=fac)
        got = fac.result()
    except Exception as e:
        viol("valid_archive_extract_failed", "extractall(factory)", "extraction of a valid archive raised %r" % e, error=type(e).__name__)
        return
    if anon:
        if sorted(got.values(), key=len) != sorted([m["data"] for m in logical if m["data"] is not None], key=len):
            viol("content_differs", "extractall(factory)", "unnamed members: delivered contents differ")
        return
    want = {}
    for m in logical:
        if m["kind"] != "dir":
            key = m["name"].lstrip("/")
            want[key] = m["data"] if m["data"] is not None else b""
    if got != want:
        missing = sorted(set(want) - set(got))
        extra_ = sorted(set(got) - set(want))
        diff = sorted(k for k in want if k in got and got[k] != want[k])
        viol("content_differs", "extractall(factory)", "missing %r unexpected %r different %r" % (missing[:3], extra_[:3], diff[:3]),
             kind="missing" if missing else ("extra" if extra_ else "bytes"))
        return
    # the same archive onto the real scratch filesystem (names that a directory tree can hold, no links): kinds and bytes
    names = [m["name"] for m in logical]
    if any(m["kind"] == "symlink" for m in logical) or not all(rsess._fs_safe_name(n) and not n.startswith("/") and "\\" not in n for n in names):
        return
    if any(a != b and (b.startswith(a + "/")) and logical[names.index(a)]["kind"] != "dir" for a in names for b in names):
        return
    out = os.path.join(driver.worker_scratch(), "c06-tree")
    shutil.rmtree(out, ignore_errors=True)
    try:
        z.reset()
        z.extractall(path=out)
        got_tree = rsess.snapshot_tree(out)
    except Exception as e:
        viol("valid_archive_extract_failed", "extractall(path)", "extraction of a valid archive to a directory raised %r" % e, error=type(e).__name__)
        return
    finally:
        tree.make_removable(out) if os.path.isdir(out) else None
        shutil.rmtree(out, ignore_errors=True)
    want_tree = rsess.expected_tree([rw.Mem(m["name"], m["data"] if m["data"] is not None else (None if m["kind"] == "dir" else b""), "dir" if m["kind"] == "dir" else "file", None, None)
                                     for m in logical])
    if got_tree != want_tree:
        diff = sorted(k for k in set(got_tree) | set(want_tree) if got_tree.get(k) != want_tree.get(k))
        viol("content_differs", "extractall(path)", "extracted tree differs at %r" % diff[:4])


def shrink_candidates(case):
    import copy

    if "fixture" in case:
        return
    L = case["layout"]
    for k, v in (("packpos", 0), ("dummy", 0), ("dummy_tail", 0), ("packcrc", False), ("omit_nums", False), ("emptyfile_vector_always", False), ("names_first", True),
                 ("no_substreams", False), ("header", "raw"), ("crc", "substream"), ("header_crc", True)):
        if L.get(k) != v and not (k == "header" and L.get("password") and L["header"] == "aes"):
            c = copy.deepcopy(case)
            c["layout"][k] = v
            yield c
    for fi in range(len(L["folders"])):
        if L["folders"][fi]["chain"] != [{"id": "COPY"}] and not any(f["id"] == "AES" for f in L["folders"][fi]["chain"]):
            c = copy.deepcopy(case)
            c["layout"]["folders"][fi]["chain"] = [{"id": "COPY"}]
            yield c
    # drop a member (and fix up folder indices)
    for i in range(len(case["members"]) - 1, -1, -1):
        c = copy.deepcopy(case)
        del c["members"][i]
        nf = []
        for fo in c["layout"]["folders"]:
            ms = [j - 1 if j > i else j for j in fo["members"] if j != i]
            if ms:
                nf.append({"members": ms, "chain": fo["chain"]})
        c["layout"]["folders"] = nf
        yield c
    for i, m in enumerate(case["members"]):
        for key in ("mtime", "ctime", "atime"):
            if m.get(key) is not None and key != "mtime":
                c = copy.deepcopy(case)
                c["members"][i][key] = None
                yield c
    if case["open"] != "stream":
        c = copy.deepcopy(case)
        c["open"] = "stream"
        yield c
    for k, v in (("block", 1048576), ("chunk", 128000000)):
        if case["read"][k] != v:
            c = copy.deepcopy(case)
            c["read"][k] = v
            yield c


def case_class(case):
    if "fixture" in case:
        return {}
    return gen.dep_flags([_chain_to_gen(fo["chain"]) for fo in case["layout"]["folders"]], case["read"]["chunk"], case["read"]["block"])
