"""C20  Streaming in bounded memory, however large or compressible a member is.  Engine memsim (DESIGN.md 4, C20):
the endpoints (a lazy generator source that never exists in memory, a counting/CRC sink) and the allocator cap are the
simulated environment; the measurement is the peak resident set of the real process, per phase."""
import io
import os
import random
import shutil
import zlib

from simkit import driver, gen
from simkit.prng import Rng
from simkit.seams import digest_of, import_py7zr

PROPERTY = "C20"
ENGINE = "memsim"
LEVEL = "exploration"
BUDGET = 700 << 20
RULE = ("case = one large member (quick: 0.25..1 GiB, thorough: up to 4 GiB; far above the 128 MB extraction chunk) with contents from maximally compressible "
        "(zeros, short period) to incompressible, produced by a lazy source that never holds it in memory, written with writef (thorough: also write(path)) "
        "under one codec family (LZMA2, LZMA, BZip2, Copy, Deflate, Deflate64, ZStandard, Brotli, PPMd; also behind BCJ/Delta and 7zAES), placed first / "
        "last / between small members, then extracted with extractall(factory) into a counting+CRC sink (thorough: extractall(path), testzip). Real knobs "
        "(1 MiB block, 128 MB chunk). Oracle per phase: peak resident growth (VmHWM after resetting the peak) over the pre-phase baseline <= 700 MiB, "
        "confirmed by a second execution before it counts; no MemoryError under the 12 GiB address-space cap; the CRC of what the sink received equals the "
        "source's. One evaluation = one phase (write or read). distinct = (chain, texture, size, entry, position); non-trivial = member >= 4x the chunk limit "
        "for reads / >= 256 x the I/O block for writes.")
ASSUMPTIONS = ["resident-set numbers are not bit-deterministic: verdict by threshold with a two-run confirmation (observed separation 375 MiB vs about 3000 MiB)",
               "the archive lives on tmpfs (shared memory, not part of the process's resident set)"]
COMPONENTS = {"real": ["py7zr writer/reader", "codec libraries", "process memory (VmHWM)"], "stub": ["source stream (lazy generator)", "sink (counting/CRC factory)", "allocator cap (RLIMIT_AS)"]}

MiB = 1 << 20

GRID = [
    # (chain, texture, size MiB)
    ([{"id": "LZMA2", "preset": 1}], "zero", 1024), ([{"id": "LZMA", "preset": 1}], "zero", 1024), ([{"id": "BZIP2"}], "zero", 512), ([{"id": "COPY"}], "rand", 512),
    ([{"id": "DEFLATE"}], "zero", 1024), ([{"id": "DEFLATE64"}], "zero", 512), ([{"id": "ZSTD", "level": 3}], "zero", 1024), ([{"id": "BROTLI", "level": 4}], "zero", 1024),
    ([{"id": "PPMD", "order": 6, "mem": 24}], "zero", 256), ([{"id": "X86"}, {"id": "LZMA2", "preset": 1}], "period", 1024), ([{"id": "LZMA2", "preset": 1}, {"id": "AES"}], "zero", 768),
    ([{"id": "COPY"}, {"id": "AES"}], "rand", 896), ([{"id": "DELTA"}, {"id": "LZMA2", "preset": 1}], "period", 768), ([{"id": "X86"}, {"id": "LZMA", "preset": 1}], "zero", 512),
    ([{"id": "X86"}, {"id": "BZIP2"}], "zero", 512), ([{"id": "ZSTD", "level": 3}, {"id": "AES"}], "zero", 768), ([{"id": "LZMA2", "preset": 1}], "rand", 512),
    ([{"id": "ARM"}, {"id": "DEFLATE"}], "period", 512),
]


def plan(tier):
    if tier == "thorough":
        return {"n": 4 * len(GRID), "budget_s": int(os.environ.get("VERIF_BUDGET_S", "1800")), "case_timeout": 1500, "workers": 12, "rlimit_as": 12 << 30}
    return {"n": len(GRID), "budget_s": 600, "case_timeout": 600, "workers": 12, "rlimit_as": 12 << 30}


def gen_case(rng: Rng, i: int, tier: str):
    r = rng.sub("k")
    chain, tex, size = GRID[i % len(GRID)]
    if tier == "thorough" and i >= len(GRID):
        size = min(4096, size * r.pick([1, 2, 4]))
        tex = r.pick(["zero", "period", "rand"]) if chain[0]["id"] != "COPY" else "rand"
        if tex == "rand":
            size = min(size, 768)
    entry = "writef" if tier == "quick" or r.chance(0.6) else "write"
    read = r.pick(["factory", "factory", "testzip"]) if tier == "quick" else r.pick(["factory", "path", "testzip"])
    case = {"chain": chain, "tex": tex, "size_mib": size, "position": r.pick(["first", "last", "between"]), "entry": entry, "read": read, "seed": r.randrange(1 << 30)}
    # environment knob: the extraction chunk is derived from the process's data-segment limit when one is set
    # (properties.get_memory_limit); a generous soft limit must leave the 128 MB cap in force
    if rng.sub("rlimit").chance(0.35):
        case["rlimit_data_gib"] = 16
    return case


class LazySource(io.BufferedIOBase):
    """Seekable binary source of ``size`` bytes generated on demand; remembers the CRC32 of what it served."""

    def __init__(self, size, tex, seed):
        self.size = size
        self.tex = tex
        self.pos = 0
        self.crc = 0
        self.rnd = random.Random(seed)
        self.unit = bytes(range(251)) * 4200 if tex == "period" else None

    def readable(self):
        return True

    def seekable(self):
        return True

    def seek(self, off, whence=0):
        if whence == 0:
            self.pos = off
        elif whence == 1:
            self.pos += off
        else:
            self.pos = self.size + off
        return self.pos

    def tell(self):
        return self.pos

    def read(self, n=-1):
        if n is None or n < 0:
            n = self.size - self.pos
        n = max(0, min(n, self.size - self.pos))
        if n == 0:
            return b""
        if self.tex == "zero":
            data = bytes(n)
        elif self.tex == "period":
            off = self.pos % 251
            data = (self.unit[off:] + self.unit * (n // len(self.unit) + 1))[:n]
        else:
            data = self.rnd.randbytes(n)
        self.pos += n
        self.crc = zlib.crc32(data, self.crc)
        return data


def _hwm_reset():
    try:
        with open("/proc/self/clear_refs", "w") as f:
            f.write("5")
    except OSError:
        pass


def _status(key):
    with open("/proc/self/status") as f:
        for line in f:
            if line.startswith(key + ":"):
                return int(line.split()[1]) * 1024
    return 0


def measured(fn):
    """Run fn(); returns (peak resident growth in bytes over the baseline at the start of the phase, result or exception)."""
    import gc

    gc.collect()
    _hwm_reset()
    base = _status("VmRSS")
    try:
        out = fn()
        err = None
    except MemoryError as e:
        out, err = None, e
    except Exception as e:
        out, err = None, e
    peak = _status("VmHWM")
    return max(0, peak - base), out, err


def run_case(case):
    py7zr = import_py7zr()
    from py7zr.io import Py7zIO, WriterFactory

    res = {"evals": 0, "violations": [], "faults": {}, "probes": {}, "rejected": {}, "classes": {}, "sigs": [], "extra": {}}
    scratch = os.path.join(driver.worker_scratch(), "c20")
    shutil.rmtree(scratch, ignore_errors=True)
    os.makedirs(scratch)
    archive = os.path.join(scratch, "big.7z")
    size = case["size_mib"] * MiB
    fam = gen.chain_family(case["chain"])
    password = "secret" if gen.chain_has_aes(case["chain"]) else None
    cls = {"chain": fam, "tex": case["tex"], "position": case["position"], "rlimit_data": bool(case.get("rlimit_data_gib"))}
    cls.update(case_class(case))

    def viol(oracle, site, detail, **extra):
        c = dict(cls)
        c.update(extra)
        res["violations"].append({"fp": {"oracle": oracle, "site": site, "class": c}, "detail": detail})

    class Sink(Py7zIO):
        def __init__(self):
            self.n = 0
            self.crc = 0

        def write(self, s):
            self.n += len(s)
            self.crc = zlib.crc32(s, self.crc)
            return len(s)

        def read(self, size=None):
            return b""

        def seek(self, offset, whence=0):
            return 0

        def flush(self):
            pass

        def size(self):
            return self.n

    class Fac(WriterFactory):
        def __init__(self):
            self.products = {}

        def create(self, filename):
            self.products[filename] = Sink()
            return self.products[filename]

    src_crc = {}

    def do_write():
        src = LazySource(size, case["tex"], case["seed"])
        kw = {"filters": gen.to_filters(case["chain"])}
        if password:
            kw["password"] = password
        with py7zr.SevenZipFile(archive, "w", **kw) as z:
            if case["position"] in ("last", "between"):
                z.writestr(b"small member before" * 10, "small-before.txt")
            if case["entry"] == "write":
                p = os.path.join(scratch, "big.src")
                with open(p, "wb") as f:
                    while True:
                        b = src.read(8 * MiB)
                        if not b:
                            break
                        f.write(b)
                z.write(p, "big.bin")
            else:
                z.writef(src, "big.bin")
            if case["position"] in ("first", "between"):
                z.writestr(b"small member after" * 10, "small-after.txt")
        src_crc["crc"] = src.crc
        return os.path.getsize(archive)

    def do_read():
        if case.get("rlimit_data_gib"):
            import resource

            soft0, hard0 = resource.getrlimit(resource.RLIMIT_DATA)
            want_soft = case["rlimit_data_gib"] << 30
            if hard0 != resource.RLIM_INFINITY:
                want_soft = min(want_soft, hard0)
            resource.setrlimit(resource.RLIMIT_DATA, (want_soft, hard0))
            try:
                return _do_read()
            finally:
                resource.setrlimit(resource.RLIMIT_DATA, (soft0, hard0))
        return _do_read()

    def _do_read():
        with py7zr.SevenZipFile(archive, "r", password=password) as z:
            if case["read"] == "testzip":
                return ("testzip", z.testzip())
            if case["read"] == "path":
                out = os.path.join(scratch, "out")
                os.makedirs(out, exist_ok=True)
                z.extractall(path=out)
                p = os.path.join(out, "big.bin")
                crc = 0
                n = 0
                with open(p, "rb") as f:
                    while True:
                        b = f.read(8 * MiB)
                        if not b:
                            break
                        crc = zlib.crc32(b, crc)
                        n += len(b)
                shutil.rmtree(out, ignore_errors=True)
                return ("sink", n, crc)
            fac = Fac()
            z.extractall(factory=fac)
            s = fac.products.get("big.bin")
            return ("sink", s.n if s else -1, s.crc if s else -1)

    log = []
    try:
        for phase, fn in (("write", do_write), ("read", do_read)):
            growth, out, err = measured(fn)
            res["evals"] += 1
            if isinstance(err, py7zr.exceptions.UnsupportedCompressionMethodError) and phase == "write":
                res["rejected"][fam] = 1
                break
            confirmed = None
            if err is None and growth > BUDGET:
                growth2, out2, err2 = measured(fn)  # RSS is not bit-deterministic: a violation needs two consecutive executions over budget
                res["evals"] += 1
                confirmed = growth2
                if err2 is None and growth2 <= BUDGET:
                    growth = growth2
            res["extra"]["max_peak_growth_mib_%s" % phase] = growth // MiB
            log.append((phase, growth // (64 * MiB), repr(err)[:60]))
            if isinstance(err, MemoryError):
                viol("memory_error_under_cap", phase, "%s of a %d MiB %s member with %s raised MemoryError under the 12 GiB cap" % (phase, case["size_mib"], case["tex"], fam), phase=phase)
                break
            if err is not None:
                viol("phase_failed", phase, "%s of a %d MiB %s member with %s raised %r" % (phase, case["size_mib"], case["tex"], fam, err), phase=phase, error=type(err).__name__)
                break
            if growth > BUDGET:
                viol("peak_rss", phase, "%s of a %d MiB %s member with %s: peak resident growth %d MiB (second run %s MiB), budget 700 MiB; archive %s bytes" % (
                    phase, case["size_mib"], case["tex"], fam, growth // MiB, confirmed // MiB if confirmed is not None else "-", os.path.getsize(archive) if os.path.exists(archive) else "?"),
                    phase=phase, read=case["read"] if phase == "read" else None)
            if phase == "read" and out is not None and out[0] == "sink":
                if out[1] != size or out[2] != src_crc.get("crc"):
                    viol("stream_corrupted", "read", "sink received %d bytes crc %08x, source had %d bytes crc %08x" % (out[1], out[2] & 0xFFFFFFFF, size, src_crc.get("crc", 0)))
            if phase == "read" and out is not None and out[0] == "testzip" and out[1] is not None:
                viol("stream_corrupted", "testzip", "testzip() reports %r on the freshly written archive" % (out[1],))
        res["sigs"].append(([fam, case["tex"], case["size_mib"], case["entry"], case["read"], case["position"]], True))
        res["classes"][fam] = 1
        res["probes"]["member_at_least_4x_chunk"] = 1 if size >= 4 * 128000000 else 0
        res["digest"] = digest_of([case, [l[0] for l in log]])
        res["sample"] = {"chain": case["chain"], "texture": case["tex"], "size_mib": case["size_mib"], "entry": case["entry"], "read": case["read"], "position": case["position"],
                         "peak_growth_mib": {k[21:]: v for k, v in res["extra"].items()}, "archive_bytes": os.path.getsize(archive) if os.path.exists(archive) else None}
        return res
    finally:
        shutil.rmtree(scratch, ignore_errors=True)


def case_class(case):
    """Dependency flags (third-party codec libraries with listed defects), computed from the case, never from the failure."""
    return gen.dep_flags([case.get("chain")], None, None)
