"""Shared engine for C07 (writer conformance) and C08 (append preserves history): seeded session histories
w(M0,F0) a(M1,F1) ... a(Mk,Fk) on a simulated device; after every close() the durable image is examined by
py7zr's reader, by the strict reference reader, and against the reference model."""
import json
import os

from simkit import driver, gen, rw, tree
from simkit.device import SimFS
from simkit.prng import Rng
from simkit.seams import REPO, Seams, SimClock, SimRandom, digest_of, import_py7zr

import ref7z

FIXTURE_BASES = [
    ("copy.7z", None), ("copy_2.7z", None), ("deflate.7z", None), ("lzma2_1.7z", None), ("test_1.7z", None), ("test_3.7z", None),
    ("bzip2_2.7z", None), ("ppmd.7z", None), ("zstd.7z", None), ("symlink.7z", None), ("zerosize.7z", None), ("test_folder.7z", None),
    ("umlaut-solid.7z", None), ("umlaut-non_solid.7z", None), ("lzma_bcj_x86.7z", None), ("solid.7z", None), ("mblock_1.7z", None),
    ("test_6.7z", None), ("test_5.7z", None), ("longpath.7z", None), ("hidden_linux_file.7z", None), ("bugzilla_4.7z", None),
    ("deflate64.7z", None), ("lzma2bcj.7z", None), ("p7zip-zstd.7z", None), ("read_reset.7z", None), ("test_2.7z", None),
    ("lzma2delta_1.7z", None), ("lzma_1.7z", None), ("copy_bcj_1.7z", None), ("empty.7z", None), ("encrypted_1.7z", "secret"),
    ("encrypted_3.7z", "secret"), ("extra_payload_data.7z", None),
    # folders neither py7zr nor the reference reader can decode (7-Zip's four-input BCJ2 coder): appending to them must
    # hand every descriptor back unchanged - compared structurally, nothing is decoded
    ("lzma_bcj2_1.7z", None), ("test_lzma2bcj2.7z", None),
]


def gen_history(rng: Rng, tier: str, kmax=3, allow_fixture=True, allow_real_sources=True, maxlen=None):
    heavy = tier == "thorough"
    r = rng.sub("ops")
    knobs = gen.gen_knobs(rng.sub("knobs"))
    password = gen.gen_password(r) if r.chance(0.3) else None
    base = None
    if allow_fixture and r.chance(0.2):
        fx, pw = r.pick(FIXTURE_BASES)
        base = {"fixture": fx}
        password = pw
    elif allow_fixture and r.chance(0.2):
        # first session produced by the independent reference writer with a layout of C06
        from props import c06

        for attempt in range(10):
            c = c06.gen_case(rng.sub("refbase%d" % attempt), 10 ** 6, tier)
            if "fixture" not in c and c["members"]:
                base = {"ref": {"members": c["members"], "layout": c["layout"]}}
                password = c["layout"].get("password")
                break
    k = r.wpick([(3, 1), (4, 2), (2, 3)]) if base is None else r.wpick([(5, 1), (2, 2)])
    k = min(k, kmax)
    maxlen = maxlen or (70000 if r.chance(0.15) else 2500)
    # names are pairwise distinct over the whole history, the base archive's members included
    used = [m["name"] for m in base["ref"]["members"]] if base is not None and "ref" in base else []
    sessions = []
    for j in range(k):
        mode = "a" if (j > 0 or base is not None) else "w"
        # sessions of one history need not agree on encryption: a plain session in a password history, or a password that is
        # first given when appending to a plain archive (one password per history, so that one key reads everything)
        rpw = rng.sub("pwmix%d" % j)
        pw_j = password
        # (an archive whose header is encrypted cannot be opened for appending without the password)
        header_open = (sessions[-1]["header"] != "crypt") if sessions else base is None
        if password is not None and header_open and rpw.chance(0.25):
            pw_j = None
        elif password is None and (j > 0 or base is not None) and rpw.chance(0.12):
            password = pw_j = gen.gen_password(rpw)
        s = rw.gen_session(r, mode, knobs, used, nmax=4, maxlen=maxlen, password=pw_j, heavy=heavy)
        if pw_j is None and s.get("header") == "crypt":
            s["header"] = "enc"
        if allow_real_sources and r.chance(0.35):
            extra = []
            if r.chance(0.5):
                nm = _no_drive(gen.gen_name(r))
                if nm not in used and nm not in rw.session_names(s):
                    extra.append({"op": "write", "name": nm, "content": gen.gen_content(r, block=knobs["block"], maxlen=maxlen),
                                  "mode": r.pick([0o400, 0o644, 0o755, 0o600]), "mtime_ns": tree.gen_mtime_ns(r)})
            if r.chance(0.5):
                arc = "t%d_%s" % (j, gen.gen_component(r, "ascii"))
                extra.append({"op": "writeall", "name": arc, "tree": tree.gen_tree(r, maxdepth=3, nmax=6, block=knobs["block"], maxlen=maxlen)})
            pos = r.randint(0, len(s["ops"]))
            s["ops"][pos:pos] = extra
        rf = rng.sub("refused%d" % j)
        if allow_real_sources and rf.chance(0.12):
            # a call that is refused, caught by the caller, and followed by the rest of the session
            nm = "refused%d_%s" % (j, gen.gen_component(rf, "ascii"))
            s["ops"].insert(rf.randint(0, len(s["ops"])), {"op": "refused", "name": nm,
                                                             "how": rf.pick(["missing", "link_to_undecodable", "fifo", "surrogate_name", "missing_tree"])})
        used += rw.session_names(s)
        for op in s["ops"]:
            if op["op"] == "writeall":
                used.append(op["name"])
        sessions.append(s)
    rd = rng.sub("dironly")
    if len(sessions) >= 2 and rd.chance(0.08):
        # two sessions in a row that add nothing but directories (each leaves a folder without streams), data before or after
        first = rd.randint(0, len(sessions) - 2)
        for j in (first, first + 1):
            arc = "onlydirs%d_%s" % (j, gen.gen_component(rd, "ascii"))
            sessions[j]["ops"] = [{"op": "writeall", "name": arc, "tree": [{"path": "p", "kind": "dir", "mode": 0o755, "mtime_ns": tree.gen_mtime_ns(rd)},
                                                                          {"path": "p/q", "kind": "dir", "mode": 0o700, "mtime_ns": tree.gen_mtime_ns(rd)}]}]
        if first + 2 >= len(sessions) and len(sessions) < kmax:
            s_last = rw.gen_session(rd, "a", knobs, used + ["onlydirs"], nmax=3, maxlen=2000, password=sessions[-1].get("password"))
            if s_last.get("header") == "crypt" and s_last.get("password") is None:
                s_last["header"] = "enc"
            s_last["ops"] = [op for op in s_last["ops"] if op["name"] not in used] or s_last["ops"]
            sessions.append(s_last)
    if base is not None and sessions and rng.sub("emptyappend").chance(0.2):
        # an append session that adds nothing: the header of another writer's archive is parsed and written back as it is
        sessions[0]["ops"] = []
    read = {"block": gen.gen_knobs(r)["block"], "chunk": gen.gen_knobs(r)["chunk"]}
    if base is not None:
        # fixtures hold members of up to several MB: a 1-byte chunk limit would only make the run slow
        read["chunk"] = max(read["chunk"], 4096)
        read["block"] = max(read["block"], 4096)
    return {"base": base, "sessions": sessions, "target": r.wpick([(4, "path"), (3, "stream"), (2, "bufobj")]), "knobs": knobs,
            "rng": r.randrange(1 << 30), "read": read}


UNDECODABLE_BASES = ("lzma_bcj2_1.7z", "test_lzma2bcj2.7z")
DECODABLE_FIXTURE_BASES = [x for x in FIXTURE_BASES if x[0] not in UNDECODABLE_BASES]


def _no_drive(name):
    """write()/writeall() strip a leading drive prefix and separators from arcname by design (C16); keep such names
    out of these ops so the model needs no copy of that rule."""
    import re

    while re.match("^[a-zA-Z]:", name) or name.startswith("/"):
        name = "_" + name
    return name


def _py7zr_view(image, password, read_knobs, names_only=False):
    """(names, products, meta) through py7zr, or the exception."""
    py7zr = import_py7zr()
    from simkit.device import SimRaw

    fs = SimFS()
    fs.add("/sim/r.7z", image)
    with Seams(fs=fs, blocksize=read_knobs.get("block"), memlimit=read_knobs.get("chunk"), inline_threads=True):
        z = py7zr.SevenZipFile(SimRaw(fs.get("/sim/r.7z"), readable=True), "r", password=password)
        try:
            names = z.getnames()
            meta = []
            for f in z.files:
                lw = f.lastwritetime
                meta.append((f.filename, int(lw) if lw is not None else None, f._file_info.get("attributes"), bool(f.is_directory), f.uncompressed, f.crc32))
            if names_only:
                return names, None, meta
            fac = rw.make_factory()
            z.extractall(factory=fac)
            return names, fac.result(), meta
        finally:
            z.close()


def _folder_desc(f):
    return json.dumps([[(c["id"].hex(), c["numin"], c["numout"], (c["props"] or b"").hex()) for c in f["coders"]], f["bind"], f["packed"], f["unpacksizes"], f.get("crc")], sort_keys=True)


def run_history(case, want_c07=True, want_c08=True):
    knobs = case["knobs"]
    res = {"evals": 0, "violations": [], "faults": {}, "probes": {}, "rejected": {}, "classes": {}, "sigs": [], "lint": {}, "extra": {}}
    fs = SimFS(buffer_size=knobs["bufsize"])
    clock = SimClock(tick=0.001)
    rand = SimRandom(Rng(case["rng"], "iv"))
    password = None
    model = []  # rw.Mem entries with observed metadata baseline filled in lazily
    baseline = {}  # index -> (mtime, attrs) as first observed
    structural = None  # folder descriptors of a base archive that holds undecodable folders
    base_sizes = []
    log = []
    base_kind = "py7zr"
    try:
        if case.get("base") and "ref" in case["base"]:
            from props import c06
            from ref7z import writer as W

            base_kind = "ref7z:layout"
            logical = c06.materialize_members(case["base"]["ref"])
            img = W.build(logical, dict(case["base"]["ref"]["layout"]))
            password = case["base"]["ref"]["layout"].get("password")
            fs.add(rw.SIM_PATH, img)
            a = ref7z.read(img, password)
            if ref7z.enforced_issues(a) or a.undecoded:
                res["extra"]["ref_base_selfcheck_skipped"] = 1
                res["digest"] = digest_of(["ref-base-skip"])
                return res
            for m in a.members:
                model.append(rw.Mem(m.name, m.data, m.kind, m.mtime, m.attributes))
                baseline[len(model) - 1] = (m.mtime, m.attributes)
        elif case.get("base"):
            fx = case["base"]["fixture"]
            base_kind = "fixture:" + fx
            with open(os.path.join(REPO, "tests", "data", fx), "rb") as f:
                img = f.read()
            password = dict(FIXTURE_BASES).get(fx)
            fs.add(rw.SIM_PATH, img)
            a = ref7z.read(img, password)
            for m in a.members:
                kind = m.kind
                model.append(rw.Mem(m.name, m.data, kind, m.mtime, m.attributes))
                baseline[len(model) - 1] = (m.mtime, m.attributes)
            if a.undecoded:
                structural = [_folder_desc(f) for f in a.main["folders"]]
                base_sizes = [m.size for m in a.members]
        chains = []
        for si, sess in enumerate(case["sessions"]):
            if sess.get("password") is not None:
                password = sess["password"]
            fam = gen.chain_family(sess.get("chain"))
            chains.append(fam)
            cls = {"session": si, "mode": sess["mode"], "base": base_kind.split(":")[0]}
            cls.update(gen.dep_flags([x.get("chain") for x in case["sessions"][: si + 1]], case["read"]["chunk"], case["read"]["block"]))

            def viol(prop, oracle, site, detail, **extra):
                c = dict(cls)
                c.update(extra)
                res["violations"].append({"prop": prop, "fp": {"oracle": oracle, "site": site, "class": c}, "detail": detail})

            with Seams(fs=fs, blocksize=knobs["block"], memlimit=knobs["chunk"], clock=clock, rand=rand):
                try:
                    added, err = rw.run_write_session(fs, sess, case["target"], knobs["bufsize"])
                except rw.Rejected as e:
                    res["rejected"][fam] = res["rejected"].get(fam, 0) + 1
                    log.append(("rejected", si))
                    break
            if err is not None:
                viol("C08", "session_raised", "close" if len(added) >= len(sess["ops"]) else "write",
                     "session %d (%s, chain %s) raised %r; the archive held %d members before" % (si, sess["mode"], fam, err, len(model)),
                     error=type(err).__name__)
                if len(added) >= len(sess["ops"]):
                    # every member was accepted and close() failed: what is left on disk is what py7zr "wrote" - no archive at all
                    viol("C07", "session_raised", "close", "session %d (%s, chain %s): close() raised %r after all %d members were accepted; no well-formed archive was written" % (
                        si, sess["mode"], fam, err, len(added)), error=type(err).__name__)
                log.append(("raised", si, repr(err)[:80]))
                break
            start = len(model)
            model += added
            image = fs.get(rw.SIM_PATH).snapshot()
            res["evals"] += 1
            want_names = [m.name for m in model]
            want_data = {m.name: m.data for m in model if m.kind != "dir" and m.data is not None}
            # ---------------- reference reader (C07 strict, C08 content) ----------------
            a = None
            try:
                a = ref7z.read(image, password)
            except (ref7z.FormatError, ref7z.CodecError) as e:
                viol("C07", "reference_reader_rejects", "ref7z", "image after session %d is not well-formed: %s" % (si, e), family=getattr(e, "family", "codec"))
            except ref7z.Unsupported as e:
                res["lint"]["ref7z_unsupported"] = res["lint"].get("ref7z_unsupported", 0) + 1
            if a is not None:
                for fam_, text in ref7z.enforced_issues(a):
                    viol("C07", "structural_rule", "ref7z", "after session %d: %s" % (si, text), family=fam_, rule=text.split(":")[0][:40])
                for l in a.lint:
                    key = l.split(" ")[0] + " " + " ".join(l.split(" ")[1:4]) if not l[0].isdigit() else " ".join(l.split(" ")[1:5])
                    res["lint"][key] = res["lint"].get(key, 0) + 1
                if structural is not None:
                    got_names = a.names()
                    if got_names != want_names:
                        viol("C08", "members_differ", "ref7z", "after session %d reference reader lists %r, model %r" % (si, got_names[:8], want_names[:8]))
                    now = [_folder_desc(f) for f in (a.main["folders"] if a.main else [])][:len(structural)]
                    if now != structural:
                        k = next((k for k in range(len(structural)) if k >= len(now) or now[k] != structural[k]), 0)
                        viol("C08", "folder_descriptor_changed", "ref7z", "after session %d folder %d of the base archive is described as %s, it was %s" % (
                            si, k, now[k][:200] if k < len(now) else None, structural[k][:200]))
                    if [m.size for m in a.members][:len(base_sizes)] != base_sizes:
                        viol("C08", "metadata_changed", "ref7z", "after session %d the sizes of the base archive's members changed" % si)
                    for i, m in enumerate(a.members[:len(base_sizes)]):
                        if i in baseline and (m.mtime, m.attributes) != baseline[i]:
                            viol("C08", "metadata_changed", "ref7z", "member %d %r: (mtime, attributes) was %r, after session %d it is %r" % (i, m.name, baseline[i], si, (m.mtime, m.attributes)))
                            break
                elif not a.undecoded:
                    got_names = a.names()
                    if got_names != want_names:
                        viol("C07", "members_differ", "ref7z", "reference reader lists %r, model %r" % (got_names[:8], want_names[:8]))
                        viol("C08", "members_differ", "ref7z", "after session %d reference reader lists %r, model %r" % (si, got_names[:8], want_names[:8]))
                    else:
                        for i, (m, w) in enumerate(zip(a.members, model)):
                            wk = {"file": "file", "dir": "dir", "symlink": "symlink"}[w.kind]
                            if w.kind != "dir" and m.data != w.data:
                                p = "C08" if i < start else "C07"
                                viol(p, "bytes_differ", "ref7z", "member %d %r: %d bytes expected, reference reader decodes %s" % (
                                    i, w.name, len(w.data), "None" if m.data is None else len(m.data)), earlier=i < start)
                                if p == "C08":
                                    viol("C07", "bytes_differ", "ref7z", "member %d %r differs" % (i, w.name), earlier=True)
                                break
                            if m.kind != wk and not (base_kind != "py7zr" and i < start):
                                viol("C07", "kind_differs", "ref7z", "member %r: written as %s, reference reader sees %s" % (w.name, wk, m.kind))
                                break
                            if w.mtime is not None and i >= start and (m.mtime is None or abs(m.mtime - w.mtime) > 50):  # 5 us, as C02 allows
                                viol("C07", "mtime_differs", "ref7z", "member %r: source mtime %r, stored %r" % (w.name, w.mtime, m.mtime))
                                break
                            if i in baseline:
                                if (m.mtime, m.attributes) != baseline[i]:
                                    viol("C08", "metadata_changed", "ref7z", "member %d %r: (mtime, attributes) was %r, after session %d it is %r" % (
                                        i, w.name, baseline[i], si, (m.mtime, m.attributes)))
                                    break
                            else:
                                baseline[i] = (m.mtime, m.attributes)
            # ---------------- py7zr's own reader (C08) ----------------
            if want_c08:
                try:
                    from simkit.steps import StepBudgetExceeded, StepCounter

                    budget = rw.read_budget(len(image), sum(len(d) for d in want_data.values()))
                    try:
                        with StepCounter(budget) as sc:
                            names, products, meta = _py7zr_view(image, password, case["read"], names_only=structural is not None)
                        res["sim_steps"] = res.get("sim_steps", 0) + sc.steps
                    except StepBudgetExceeded:
                        viol("C08", "call_never_returns", "py7zr", "reading the image after session %d exceeded %d steps (spin)" % (si, budget))
                        break
                    if names != want_names:
                        viol("C08", "members_differ", "py7zr", "after session %d py7zr lists %r, model %r" % (si, names[:8], want_names[:8]))
                    elif structural is None and products != want_data:
                        bad = [n for n in want_data if products.get(n) != want_data[n]]
                        extra_ = [n for n in products if n not in want_data]
                        idx = want_names.index(bad[0]) if bad else -1
                        viol("C08", "bytes_differ", "py7zr", "after session %d: members %r differ or are missing, unexpected %r" % (si, bad[:4], extra_[:4]),
                             earlier=(0 <= idx < start))
                    else:
                        for i, mt in enumerate(meta):
                            if i in baseline and (mt[1], mt[2]) != baseline[i]:
                                viol("C08", "metadata_changed", "py7zr", "member %d %r: (mtime, attributes) %r -> %r" % (i, mt[0], baseline[i], (mt[1], mt[2])))
                                break
                except Exception as e:
                    viol("C08", "reopen_failed", "py7zr", "image after session %d does not read back: %r" % (si, e), error=type(e).__name__)
            log.append(("ok", si, image))
            kinds = sorted({m.kind for m in added})
            res["sigs"].append(([base_kind, tuple(chains), sess["header"], si, kinds, min(len(added), 3)], bool(si > 0 or base_kind != "py7zr") and len(added) > 0))
            res["classes"]["%s|%s|s%d" % (fam, sess["header"], si)] = 1
        res["probes"]["appended_to_fixture"] = 1 if base_kind != "py7zr" and any(l[0] == "ok" for l in log) else 0
        res["probes"]["three_sessions"] = 1 if sum(1 for l in log if l[0] == "ok") >= 3 else 0
        res["probes"]["real_source_members"] = 1 if any(op["op"] in ("write", "writeall") for s in case["sessions"] for op in s["ops"]) else 0
    finally:
        rw.cleanup_sources()
    res["digest"] = digest_of(log)
    res["sample"] = {"base": base_kind, "target": case["target"], "knobs": knobs,
                     "sessions": [{"mode": s["mode"], "chain": gen.chain_family(s["chain"]), "header": s["header"], "password": s["password"] is not None,
                                   "ops": [(op["op"], op["name"]) for op in s["ops"]][:6]} for s in case["sessions"]]}
    return res


def shrink_candidates(case):
    import copy

    if len(case["sessions"]) > 1:
        for i in range(len(case["sessions"]) - 1, -1, -1):
            c = copy.deepcopy(case)
            del c["sessions"][i]
            if c["sessions"] and c["sessions"][0]["mode"] == "a" and not c.get("base"):
                c["sessions"][0]["mode"] = "w"
            yield c
    for si, s in enumerate(case["sessions"]):
        for i in range(len(s["ops"])):
            c = copy.deepcopy(case)
            del c["sessions"][si]["ops"][i]
            yield c
        for i, op in enumerate(s["ops"]):
            if op["op"] == "writeall" and len(op["tree"]) > 1:
                for j in range(len(op["tree"]) - 1, -1, -1):
                    e = op["tree"][j]
                    if any(x["path"].startswith(e["path"] + "/") for x in op["tree"]):
                        continue
                    c = copy.deepcopy(case)
                    del c["sessions"][si]["ops"][i]["tree"][j]
                    yield c
            if "content" in op and op["content"].get("len", 0) > 0:
                for m in (0, op["content"]["len"] // 2):
                    if m < op["content"]["len"]:
                        c = copy.deepcopy(case)
                        c["sessions"][si]["ops"][i]["content"]["len"] = m
                        c["sessions"][si]["ops"][i].pop("offset", None)
                        yield c
        if s["header"] != "raw":
            c = copy.deepcopy(case)
            c["sessions"][si]["header"] = "raw"
            yield c
        if s.get("chain") not in ([{"id": "COPY"}],) and not gen.chain_has_aes(s.get("chain")):
            c = copy.deepcopy(case)
            c["sessions"][si]["chain"] = [{"id": "COPY"}]
            yield c
    if case["target"] != "stream":
        c = copy.deepcopy(case)
        c["target"] = "stream"
        yield c
    for k, v in (("block", 1048576), ("chunk", 128000000)):
        if case["knobs"][k] != v:
            c = copy.deepcopy(case)
            c["knobs"][k] = v
            yield c
        if case["read"][k] != v:
            c = copy.deepcopy(case)
            c["read"][k] = v
            yield c


def case_class(case):
    return gen.dep_flags([x.get("chain") for x in case["sessions"]], case["read"]["chunk"], case["read"]["block"])
