"""C03  Extraction never writes outside the destination directory.  Engine rsim + fsjail (DESIGN.md 4, C03): hostile
archives from the reference writer, extracted into a jailed scratch directory under an interpreter audit hook that
resolves where every mutating filesystem operation really lands."""
import itertools
import os
import shutil
import stat

from props import rsess
from simkit import driver, fsjail, gen, rw, tree
from simkit.device import SimFS, SimRaw
from simkit.prng import Rng
from simkit.seams import Seams, digest_of, import_py7zr

from ref7z import writer as W

PROPERTY = "C03"
ENGINE = "rsim+fsjail"
LEVEL = "exploration"
RULE = ("case = hostile archive of 1..5 entries (thorough: up to 12) built by the reference writer: names from components {a, b, '..', '.', '', absolute "
        "prefix, the destination's own name, absolute paths into the moat}, kinds file / directory / symlink with targets from {'.', '..', '../..', 'a', "
        "'a/..', absolute paths inside and outside the jail, names of earlier entries, chains through earlier links}, seeded order, one or several "
        "folders; extracted with extractall / extract(T) into scratch/moat1/moat2/jail given as absolute path, relative path or None (cwd = jail), the jail "
        "empty or pre-populated with plain files and directories; opened by path (worker threads, inline schedule) or by stream. Monitor: audit events "
        "(open-for-write, mkdir, symlink, link, chmod, utime, remove, rename, truncate, rmdir) resolved at the moment they happen; an event landing outside "
        "the jail is an escape, one outside the scratch root is vetoed and recorded; independently a before/after snapshot of everything around the jail "
        "must be unchanged whether extraction returned or raised. One evaluation = one extraction. distinct = canonical entry list x destination form x "
        "open kind; non-trivial = some entry name or target contains '..', is absolute, or passes through an earlier link.")
ASSUMPTIONS = ["the audit hook sees every filesystem mutation py7zr performs (pathlib / os / builtins.open all raise audit events)",
               "the checks run as root: operations that would land outside the scratch root are vetoed by the hook"]
COMPONENTS = {"real": ["py7zr extractor", "kernel tmpfs (path resolution, symlinks)"], "stub": ["archive device"], "monitor": ["sys.addaudithook + realpath resolution", "moat snapshot"],
              "generator": ["ref7z.writer"]}

COMPS = ["a", "b", "..", ".", "", "${JAILNAME}"]
TARGETS = [".", "..", "../..", "a", "a/..", "b", "../b", "${JAIL}", "${JAIL}/a", "${OUT}", "${OUT}/x", "/", "../${JAILNAME}", "a/../..", "../../..",
           "../${JAILNAME}-old", "${JAIL}-old", "../${JAILNAME}x", "${JAIL}x"]


def plan(tier):
    if tier == "thorough":
        return {"n": None, "budget_s": int(os.environ.get("VERIF_BUDGET_S", "900")), "case_timeout": 120}
    return {"n": 12000, "budget_s": 170, "case_timeout": 60}


def gen_case(rng: Rng, i: int, tier: str):
    r = rng.sub("k")
    n = r.randint(1, 5) if tier == "quick" or r.chance(0.7) else r.randint(6, 12)
    entries = []
    for k in range(n):
        depth = r.wpick([(4, 1), (4, 2), (2, 3), (1, 4)])
        comps = [r.wpick([(5, "a"), (4, "b"), (3, ".."), (1, "."), (1, ""), (1, "${JAILNAME}"), (2, "c")]) for _ in range(depth)]
        prev_links = [e["name"] for e in entries if e["kind"] == "symlink"]
        if prev_links and r.chance(0.5):
            # a name that passes through an earlier link
            comps = r.pick(prev_links).split("/") + comps[: r.randint(1, 2)]
        name = "/".join(comps)
        if r.chance(0.1):
            name = r.pick(["/", "${OUT}/", "//"]) + name
        kind = r.wpick([(4, "file"), (2, "dir"), (4, "symlink")])
        e = {"name": name, "kind": kind}
        if kind == "symlink":
            cands = list(TARGETS) + [x["name"] for x in entries]
            e["target"] = r.pick(cands)
        elif kind == "file":
            e["data"] = "payload-%d" % k
        entries.append(e)
    if r.chance(0.3):
        # directed: links that are individually harmless but compose (one followed through another), then a write through them
        n1 = r.pick(["a", "b", "c", "a/b"])
        t1 = r.pick([".", "a", "b", "a/..", "./."])
        x = r.pick(["a", "b", "c"])
        t2 = r.pick(["..", "../..", ".", "a/../..", "${JAIL}/..", "../${JAILNAME}/.."])
        chain = [{"name": n1, "kind": "symlink", "target": t1}, {"name": n1 + "/" + x, "kind": "symlink", "target": t2}]
        if r.chance(0.5):
            chain.append({"name": n1 + "/" + x + "/" + r.pick(["y", "z"]), "kind": "symlink", "target": r.pick(["..", "."])})
        last = chain[-1]["name"]
        tail = r.pick([last + "/evil", x + "/evil", last + "/x", x + "/b/evil", last])
        chain.append({"name": tail, "kind": r.pick(["file", "file", "dir"]), "data": "payload-x"})
        if r.chance(0.3):
            r.shuffle(chain)
        entries = chain + (entries[:1] if r.chance(0.3) else [])
    elif r.chance(0.25):
        # directed: a link through which a later link's TARGET climbs ('l -> .', then 'x -> l/..'), placed under an alias
        # of an earlier file's name ('b/../f') so that the file's post-pass utime/chmod follows it
        l = r.pick(["l", "a", "b"])
        t1 = r.pick([".", "./.", "a/.."])
        f = r.pick(["f", "c", "x"])
        alias = r.pick([f, "b/../" + f, "./" + f, "q/../" + f, f])
        t2 = r.pick([l + "/..", l + "/../..", l + "/../x", l + "/../${JAILNAME}/..", l + "/../newfile"])
        sc = [{"name": l, "kind": "symlink", "target": t1}, {"name": f, "kind": r.pick(["file", "dir"]), "data": "payload-f"},
              {"name": alias, "kind": "symlink", "target": t2}]
        if r.chance(0.5):
            sc.append({"name": r.pick([alias, f, "b/../" + f]) + r.pick(["", "/evil"]), "kind": "file", "data": "payload-g"})
        if r.chance(0.2):
            r.shuffle(sc)
        entries = sc + (entries[:1] if r.chance(0.3) else [])
    elif r.chance(0.2):
        # directed: late binding - a link text that passes through a component which does not exist yet (so it resolves,
        # lexically and physically, to something inside), the component then appears as a link that moves the resolution
        # outside, then the first link is written through.  The outside names include neighbours that share the
        # destination's name as a prefix.
        x = r.pick(["q", "b", "m"])
        name = r.pick(["${JAILNAME}-old", "${JAILNAME}x", "x", "b", "${JAILNAME}-old/evil", "a"])
        lb = [{"name": "c", "kind": "symlink", "target": x + "/../" + name},
              {"name": x, "kind": "symlink", "target": r.pick([".", "./.", "a/..", ".."])},
              {"name": r.pick(["c/evil", "c", "c/sub/evil", "c/evil"]), "kind": r.pick(["file", "file", "dir"]), "data": r.pick(["payload-l", ""])}]
        if r.chance(0.15):
            r.shuffle(lb)
        entries = lb + (entries[:1] if r.chance(0.3) else [])
    elif r.chance(0.25):
        # directed: a directory reached THROUGH links is used, then a link on the way is re-pointed by a member with another
        # spelling of the same output path, then the directory is used again: anything remembered about it is stale
        d = r.pick(["c", "d"])
        a = r.pick(["a", "l"])
        b = r.pick(["b", "m"])
        t_b = r.pick([a + "/..", a, a + "/../" + d + "/..", a + "/."])
        rp = [{"name": d, "kind": "dir"}, {"name": a, "kind": "symlink", "target": r.pick([d, "./" + d])},
              {"name": b, "kind": "symlink", "target": t_b}]
        if r.chance(0.8):
            rp.append({"name": b + "/" + r.pick(["f", "sub/f"]), "kind": "file", "data": r.pick(["payload-1", ""])})
        rp.append({"name": r.pick([d + "/../" + a, "./" + a, "q/../" + a, a, a]), "kind": "symlink", "target": r.pick([".", "..", "./.", d + "/..", "${JAIL}"])})
        rp.append({"name": b + "/" + r.pick(["n", "f", "sub/n", "precious.txt"]), "kind": r.pick(["file", "file", "dir"]), "data": r.pick(["payload-2", ""])})
        if r.chance(0.15):
            r.shuffle(rp)
        entries = rp + (entries[:1] if r.chance(0.3) else [])
    elif r.chance(0.2):
        # directed: the same name several times (py7zr renames later duplicates), including names that canonicalise to the
        # destination itself, and a directory later replaced by a link of the same name
        nm = r.pick([".", "a/..", "a", "a/b", "b/../a", "", "./."])
        dup = [{"name": nm, "kind": r.pick(["file", "dir", "symlink"]), "data": "payload-d%d" % k, "target": r.pick(["..", ".", "a", "${OUT}"])} for k in range(r.randint(2, 3))]
        entries = dup + entries[: r.randint(0, 2)]
        if r.chance(0.5):
            r.shuffle(entries)
    ro = rng.sub("occupy")
    links = [e["name"] for e in entries if e["kind"] == "symlink"]
    if links and ro.chance(0.3):
        # a later member whose output path is the place an earlier LINK occupies, under another spelling of the name (the
        # same spelling would be renamed as a duplicate): an empty file (as other tools store it: no stream), a file, a directory
        ln = ro.pick(links)
        alias = ro.pick(["z/../" + ln, "./" + ln, "q/../" + ln, "z/../" + ln])
        entries.append({"name": alias, "kind": ro.pick(["file", "file", "file", "dir"]), "data": ro.pick(["", "", "payload-o"])})
    data_n = sum(1 for e in entries if e["kind"] != "dir")
    split = r.chance(0.4) and data_n > 1
    return {"entries": entries, "multi_folder": split, "dest": r.pick(["abs", "rel", "none", "dot", "abs", "rel", "none", "empty"]), "prepop": r.pick([None, None, "files"]),
            "open": r.pick(["path", "stream", "anon"]), "call": r.wpick([(4, "extractall"), (1, "extract")]), "tseed": r.randrange(1 << 30)}


def build_image(case, jail, out):
    def sub(s):
        return s.replace("${JAILNAME}", os.path.basename(jail)).replace("${JAIL}", jail).replace("${OUT}", out)

    members = []
    for e in case["entries"]:
        nm = sub(e["name"])
        if e["kind"] == "dir":
            members.append({"name": nm, "kind": "dir", "data": None, "attrs": 0x10 | 0x8000 | ((stat.S_IFDIR | 0o755) << 16)})
        elif e["kind"] == "symlink":
            members.append({"name": nm, "kind": "symlink", "data": sub(e["target"]).encode("utf-8"), "attrs": 0x20 | 0x8000 | ((stat.S_IFLNK | 0o777) << 16)})
        else:
            members.append({"name": nm, "kind": "file", "data": e["data"].encode(), "attrs": 0x20 | 0x8000 | ((stat.S_IFREG | 0o644) << 16), "mtime": 132444736000000000})
    idx = [i for i, m in enumerate(members) if m["kind"] != "dir" and len(m["data"]) > 0]
    if case["multi_folder"] and len(idx) > 1:
        folders = [{"members": [i], "chain": [{"id": "COPY"}]} for i in idx]
    else:
        folders = [{"members": idx, "chain": [{"id": "COPY"}]}] if idx else []
    return W.build(members, {"folders": folders, "crc": "substream", "header": "raw"}), members


def run_case(case):
    py7zr = import_py7zr()
    res = {"evals": 1, "violations": [], "faults": {}, "probes": {}, "rejected": {}, "classes": {}, "sigs": [], "extra": {}}
    scratch = os.path.join(driver.worker_scratch(), "c03")
    if os.path.isdir(scratch):
        tree.make_removable(scratch)
    shutil.rmtree(scratch, ignore_errors=True)
    moat2 = os.path.join(scratch, "moat1", "moat2")
    jail = os.path.join(moat2, "jail")
    os.makedirs(jail)
    # bystanders in the moat that a successful escape would touch
    with open(os.path.join(moat2, "x"), "w") as f:
        f.write("bystander")
    os.mkdir(os.path.join(moat2, "b"))
    with open(os.path.join(scratch, "moat1", "a"), "w") as f:
        f.write("bystander")
    os.mkdir(os.path.join(scratch, "a"))
    # neighbours whose names merely START with the destination's name: inside only for a character-wise prefix test
    os.mkdir(os.path.join(moat2, "jail-old"))
    with open(os.path.join(moat2, "jail-old", "evil"), "w") as f:
        f.write("bystander")
    with open(os.path.join(moat2, "jailx"), "w") as f:
        f.write("bystander")
    # existing files and directories above the destination under the relative paths the archives use inside it: a member
    # that escapes by one level meets something that exists (re-timing or re-moding needs an existing referent)
    for d in ("sub", "c", "q", "m"):
        os.makedirs(os.path.join(moat2, d, "sub"), exist_ok=True)
    for rel in ("evil", "f", "n", "sub/f", "sub/n", "sub/evil", "c/evil", "c/f", "c/sub/evil", "b/evil", "b/f", "b/n", "q/f", "m/f", "precious.txt", "sub/sub/f"):
        pth = os.path.join(moat2, rel)
        if not os.path.exists(pth):
            with open(pth, "w") as f:
                f.write("bystander")
            os.chmod(pth, 0o600)
            os.utime(pth, (978307200, 978307200))
    if case["prepop"]:
        os.mkdir(os.path.join(jail, "a"))
        with open(os.path.join(jail, "b"), "w") as f:
            f.write("existing")
        with open(os.path.join(jail, "a", "b"), "w") as f:
            f.write("existing")
    image, members = build_image(case, jail, moat2)
    before = fsjail.snapshot(scratch, exclude=jail)
    cwd0 = os.getcwd()
    fs = SimFS()
    fs.add(rsess.READ_PATH, image)
    outcome = "returned"
    cls = {"dest": case["dest"], "open": case["open"], "multi": bool(case["multi_folder"]), "call": case["call"], "prepop": bool(case["prepop"])}
    try:
        if case["dest"] == "abs":
            path = jail
            os.chdir(scratch)
        elif case["dest"] == "rel":
            path = "jail"
            os.chdir(moat2)
        elif case["dest"] in ("dot", "empty"):
            path = "." if case["dest"] == "dot" else ""
            os.chdir(jail)
        else:
            path = None
            os.chdir(jail)
        with fsjail.Jail(scratch, jail) as j:
            with Seams(fs=fs, inline_threads=True):
                try:
                    target = rsess.READ_PATH if case["open"] == "path" else SimRaw(fs.get(rsess.READ_PATH), readable=True, anonymous=case["open"] == "anon")
                    z = py7zr.SevenZipFile(target, "r")
                    try:
                        if case["call"] == "extractall":
                            z.extractall(path=path)
                        else:
                            r = Rng(case["tseed"], "t")
                            names = z.getnames()
                            ts = [n for n in names if r.chance(0.6)] or names[:1]
                            z.extract(path=path, targets=ts, recursive=r.chance(0.5))
                    finally:
                        try:
                            z.close()
                        except Exception:
                            pass
                except Exception as e:
                    outcome = "raised:" + type(e).__name__
    finally:
        os.chdir(cwd0)
    after = fsjail.snapshot(scratch, exclude=jail)

    def viol(oracle, detail, **extra):
        c = dict(cls)
        c.update(extra)
        res["violations"].append({"fp": {"oracle": oracle, "site": "extract", "class": c}, "detail": detail})

    listing = [(m["name"], m["kind"], m["data"].decode() if m["kind"] == "symlink" else None) for m in members]
    chained = _chained(case)
    if j.escapes or j.vetoed:
        ev = (j.escapes + [(k, l, r_) for k, l, r_ in j.vetoed])[0]
        viol("write_outside_destination", "%s at %r (archive path %r) landed outside the destination; extraction %s; entries %r" % (ev[0], ev[1], ev[2], outcome, listing),
             through_chain=chained, event=ev[0])
    if after != before:
        changed = sorted(k for k in set(before) | set(after) if before.get(k) != after.get(k))
        viol("surroundings_changed", "paths around the destination changed: %r; extraction %s; entries %r" % (changed[:5], outcome, listing), through_chain=chained)
    hostile = any(".." in e["name"].split("/") or e["name"].startswith("/") or e["name"].startswith("${OUT}") or
                  (e["kind"] == "symlink" and (".." in e["target"] or e["target"].startswith(("/", "${")))) for e in case["entries"]) or chained
    canon = [(e["name"], e["kind"], e.get("target")) for e in case["entries"]]
    res["sigs"].append(([canon, case["dest"], case["open"], case["call"]], bool(hostile)))
    res["probes"]["extraction_raised"] = 1 if outcome != "returned" else 0
    res["probes"]["extraction_returned"] = 1 if outcome == "returned" else 0
    res["probes"]["name_through_earlier_link"] = 1 if chained else 0
    res["extra"]["audited_fs_mutations"] = len(j.events)
    def _clean(x):
        import re

        if not isinstance(x, str):
            return x
        x = x.replace(scratch.lstrip("/"), "$S").replace(scratch, "$S")
        return re.sub(r"/?dev/shm/verif-\d+(/[^/\"\]]+)?", "$W", x)

    ev_clean = [(k, _clean(p)) for k, p in j.events]
    res["digest"] = digest_of([canon, case["dest"], outcome, ev_clean, sorted(_clean(k) for k in after)])
    res["sample"] = {"entries": canon, "dest": case["dest"], "open": case["open"], "call": case["call"], "outcome": outcome, "audited_events": ev_clean[:8]}
    tree.make_removable(scratch)
    shutil.rmtree(scratch, ignore_errors=True)
    return res


def _chained(case):
    links = [e["name"] for e in case["entries"] if e["kind"] == "symlink"]
    for e in case["entries"]:
        for l in links:
            if e["name"] != l and e["name"].startswith(l + "/"):
                return True
    return False


def shrink_candidates(case):
    import copy

    for i in range(len(case["entries"]) - 1, -1, -1):
        if len(case["entries"]) > 1:
            c = copy.deepcopy(case)
            del c["entries"][i]
            yield c
    for k, v in (("multi_folder", False), ("prepop", None), ("open", "stream"), ("dest", "abs"), ("call", "extractall")):
        if case[k] != v:
            c = copy.deepcopy(case)
            c[k] = v
            yield c
    for i, e in enumerate(case["entries"]):
        parts = e["name"].split("/")
        if len(parts) > 1:
            for j in range(len(parts)):
                c = copy.deepcopy(case)
                c["entries"][i]["name"] = "/".join(parts[:j] + parts[j + 1:])
                if c["entries"][i]["name"]:
                    yield c
