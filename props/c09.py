"""C09  Selective extraction equals the restriction of full extraction.  Per-operation oracle in rsim (DESIGN.md 4, C09)."""
import os
import shutil

from props import rsess
from props.c12 import _recipe_names
from simkit import driver, gen, rw
from simkit.prng import Rng
from simkit.seams import digest_of
from simkit.sched import Deadlock, FsYield, Scheduler
from simkit.steps import StepBudgetExceeded, StepCounter

PROPERTY = "C09"
ENGINE = "rsim"
LEVEL = "exploration"
RULE = ("case = seeded archive (solid single folder / multi-folder via appends, with directories, symlinks, empty files; names without proper string "
        "prefixes except along '/') + 1..3 extract(targets=T, recursive) calls (each on a fresh session or after reset()): T = seeded subset of member "
        "names plus absent names, as list or set, with/without trailing '/', recursive False/True, to a WriterFactory or to a directory, archive opened "
        "by path (worker threads, inline schedule) or from a stream, seeded block size and chunk limit so that skipping inside a solid block meets "
        "carry-over buffers of every size. Oracle: delivered set == model.restrict(T, recursive), bytes identical to the model and to extractall of "
        "the same archive; on disk nothing but the selected members and their parent directories. One evaluation = one extract call. "
        "distinct = (archive class, |T| class, position of targets in their folders, recursive, form of T, sink); non-trivial = T selects a proper non-empty subset.")
ASSUMPTIONS = ["the archive under test is valid per the reference reader", "inline worker schedule (C13 explores interleavings)"]
COMPONENTS = {"real": ["py7zr reader", "tmpfs for extraction to a directory", "codec libraries"], "stub": ["archive device", "thread scheduling (inline)", "block/chunk knobs"]}


def plan(tier):
    if tier == "thorough":
        return {"n": None, "budget_s": int(os.environ.get("VERIF_BUDGET_S", "900")), "case_timeout": 300}
    return {"n": 1500, "budget_s": 170, "case_timeout": 120}


def _ref_tree_case(rng: Rng, tier: str):
    """Archive written by the reference writer from a small tree whose entries are listed in a seeded order (directory
    entries may come after their contents, siblings interleaved), partitioned into seeded folders."""
    import stat as _stat

    from props import c06
    from simkit import tree as _tree

    r = rng.sub("reftree")
    for attempt in range(30):
        t = _tree.gen_tree(r, maxdepth=3, nmax=8, name_style=r.pick(["ascii", "bmp"]), links=False, block=32768, maxlen=1500)
        # the quantifier's side condition: no name is a proper string prefix of another except along '/' boundaries
        if rsess._names_ok(["top"] + ["top/" + e["path"] for e in t]):
            break
    else:
        t = []
    order = list(t)
    mode = r.pick(["natural", "dirs_last", "shuffled"])
    if mode == "dirs_last":
        order = [e for e in t if e["kind"] != "dir"] + [e for e in t if e["kind"] == "dir"]
    elif mode == "shuffled":
        r.shuffle(order)
    members = []
    for e in order:
        if e["kind"] == "dir":
            members.append({"name": "top/" + e["path"], "kind": "dir", "mtime": None, "ctime": None, "atime": None, "attrs": 0x10 | 0x8000 | ((_stat.S_IFDIR | 0o755) << 16)})
        else:
            members.append({"name": "top/" + e["path"], "kind": "file", "content": e["content"], "mtime": None, "ctime": None, "atime": None, "attrs": 0x20})
    members.insert(r.randint(0, len(members)), {"name": "top", "kind": "dir", "mtime": None, "ctime": None, "atime": None, "attrs": 0x10})
    data_idx = [k for k, m in enumerate(members) if m["kind"] == "file" and m["content"]["len"] > 0]
    folders = []
    k = 0
    while k < len(data_idx):
        take = r.randint(1, max(1, len(data_idx) - k))
        folders.append({"members": data_idx[k:k + take], "chain": [dict(f) for f in r.pick(c06.CHAINS[:7])]})
        k += take
    # where the digests live is the writer's choice: per member, one per folder, or none at all (the selection of members must
    # not depend on it: skipped members are still decoded, because the stream only moves forward)
    layout = {"folders": folders, "crc": rng.sub("crcmode").wpick([(3, "substream"), (2, "folder"), (2, "none")]), "header": r.pick(["raw", "lzma"]), "packcrc": False, "packpos": 0, "omit_nums": r.chance(0.5), "dummy": 0, "dummy_tail": 0,
              "emptyfile_vector_always": False, "names_first": True, "password": None, "iv_seed": 1, "no_substreams": False, "header_crc": True}
    names = [m["name"] for m in members]
    stub = [rw.Mem(n, b"", "file", None, None) for n in names]
    calls = []
    for _ in range(r.randint(1, 3)):
        calls.append({"op": "extract", "targets": rsess.gen_targets(r, stub), "recursive": r.chance(0.6), "as": r.pick(["list", "set"]), "sink": r.pick(["factory", "path"]), "fresh": r.chance(0.5)})
    return {"ref": {"members": members, "layout": layout}, "calls": calls, "open": r.pick(["path", "stream", "anon"]),
            "read": {"block": r.pick([16, 4096, 1048576]), "chunk": r.pick([17, 4096, 128000000]), "bufsize": 8192}}


def gen_case(rng: Rng, i: int, tier: str):
    if rng.sub("kind").chance(0.2):
        return _ref_tree_case(rng, tier)
    r = rng.sub("seq")
    scheduled = rng.sub("sched").chance(0.35)
    arc = rsess.gen_archive(rng.sub("arc"), tier, want_dirs=True if r.chance(0.5) else None, want_multi=True if (scheduled or r.chance(0.5)) else None,
                            encrypted=False if scheduled else None)
    names = _recipe_names(arc)
    stub = [rw.Mem(n, b"", "file", None, None) for n in names]
    calls = []
    for _ in range(r.randint(1, 3)):
        calls.append({"op": "extract", "targets": rsess.gen_targets(r, stub), "recursive": r.chance(0.5), "as": r.pick(["list", "set"]),
                      "sink": r.pick(["factory", "path"]), "fresh": r.chance(0.5)})
    case = {"archive": arc, "calls": calls, "open": r.pick(["path", "stream", "anon"]),
            "read": {"block": r.pick([16, 255, 4096, 32768, 1048576]), "chunk": r.pick([1, 15, 17, 4096, 128000000]), "bufsize": 8192}}
    rs = rng.sub("sched")
    if rs.chance(0.35):  # == scheduled (same sub-stream, same first draw)
        # an archive opened by name is extracted by one worker thread per folder: run them under the baton-passing scheduler,
        # every queue operation, device read and filesystem call a seeded scheduling point
        case["open"] = "path"
        case["sched"] = {"kind": "random", "stay": rs.pick([0.2, 0.5, 0.8]), "seed": rs.randrange(1 << 30)}
        for c in calls:
            if rs.chance(0.7):
                c["sink"] = "path"
        # directed: members of different folders that share a parent directory, selected without the directory itself, so
        # that the workers (not the caller's thread) have to create it
        from simkit import tree as _tree

        byparent = {}
        for j, s in enumerate(arc["sessions"]):
            for op in s["ops"]:
                nms = [n for n, k, _ in _tree.writeall_order(op["tree"], op["name"]) if k == "file"] if op["op"] == "writeall" else [op["name"]]
                for n in nms:
                    if "/" in n:
                        byparent.setdefault(n.rsplit("/", 1)[0], {}).setdefault(j, []).append(n)
        shared = [v for k, v in sorted(byparent.items()) if len(v) >= 2]
        if shared and rs.chance(0.8):
            grp = rs.pick(shared)
            calls[0] = {"op": "extract", "targets": [rs.pick(grp[j]) for j in sorted(grp)], "recursive": False, "as": rs.pick(["list", "set"]), "sink": "path", "fresh": True}
    return case


def run_case(case):
    res = {"evals": 0, "violations": [], "faults": {}, "probes": {}, "rejected": {}, "classes": {}, "sigs": [], "sim_steps": 0, "extra": {}}
    built = rsess.build_from_ref(case["ref"]) if "ref" in case else rsess.build_archive(case["archive"])
    if built.rejected or built.error is not None or built.image is None or not built.model:
        res["extra"]["archive_skipped"] = 1
        res["digest"] = digest_of(["skipped"])
        return res
    if case["read"]["chunk"] < 4096 and sum(len(m.data) for m in built.model if m.kind != "dir") > 20000:
        case = dict(case)
        case["read"] = dict(case["read"], chunk=4096)
    scratch = os.path.join(driver.worker_scratch(), "c09")
    shutil.rmtree(scratch, ignore_errors=True)
    os.makedirs(scratch)
    outdir = os.path.join(scratch, "out")
    cls = {"open": case["open"], "multi": built.nfolders > 1, "encrypted": built.password is not None}
    cls.update(case_class(case))
    cls["source"] = "ref7z" if "ref" in case else "py7zr"
    log = []

    def viol(oracle, site, detail, **extra):
        c = dict(cls)
        c.update(extra)
        res["violations"].append({"fp": {"oracle": oracle, "site": site, "class": c}, "detail": detail})

    total = sum(len(m.data) for m in built.model if m.kind != "dir")
    budget = rw.read_budget(len(built.image), total)
    sess = None
    sched = None
    scheds_used = []
    try:
        full = None
        for ci, call in enumerate(case["calls"]):
            res["evals"] += 1
            try:
                if sess is None or call.get("fresh"):
                    if sess is not None:
                        sess.finish()
                    if sched is not None:
                        sched.shutdown()
                        sched = None
                    if case.get("sched"):
                        strat = dict(case["sched"])
                        sched = Scheduler(rng=Rng(strat["seed"] + ci, "sched"), strategy=strat, max_steps=400000)
                        scheds_used.append(sched)
                    sess = rsess.Session(built, case["open"], case["read"], sched=sched)
                else:
                    sess.z.reset()
                with StepCounter(budget) as sc:
                    if sched is not None:
                        with FsYield(sched, scratch):
                            got = rsess.do_call(sess, call, outdir)
                    else:
                        got = rsess.do_call(sess, call, outdir)
                res["sim_steps"] += sc.steps
            except Deadlock as e:
                viol("extraction_deadlocked", "extract", "extract(%r, recursive=%r) under the scheduler: %s" % (call["targets"], call["recursive"], e))
                sess.abandon()
                sess = None
                break
            except StepBudgetExceeded:
                viol("call_never_returns", "extract", "extract(%r, recursive=%r) exceeded %d steps" % (call["targets"], call["recursive"], budget))
                sess.abandon()
                sess = None
                break
            except Exception as e:
                viol("call_raised", "extract", "extract(%r, recursive=%r, sink=%s) on a valid archive raised %r" % (call["targets"], call["recursive"], call["sink"], e),
                     error=type(e).__name__, sink=call["sink"], recursive=call["recursive"])
                try:
                    sess.finish()
                except Exception:
                    pass
                sess = None
                continue
            want = rsess.predict(call, built)
            why = rsess.compare(call, got, want, built)
            sel = rsess.restrict(built.model, call["targets"], call["recursive"])
            if why is not None:
                viol("not_the_restriction", "extract", "extract(%r, recursive=%r, sink=%s): %s" % (call["targets"], call["recursive"], call["sink"], why),
                     sink=call["sink"], recursive=call["recursive"], form=call["as"])
            proper = 0 < len(sel) < len(built.model)
            pos = sorted({_position(built, m) for m in sel})[:4]
            res["sigs"].append(([cls["multi"], cls["encrypted"], min(len(sel), 3), pos, call["recursive"], call["as"], call["sink"], case["open"]], proper))
            log.append((call["targets"], call["recursive"], call["sink"], sorted(got[1]) if isinstance(got[1], dict) else got[1]))
        if sess is not None:
            sess.finish()
            sess = None
        res["probes"]["multi_folder_archive"] = 1 if built.nfolders > 1 else 0
        res["probes"]["worker_threads_under_scheduler"] = 1 if any(len(sc_.threads) > 1 for sc_ in scheds_used) else 0
        if scheds_used:
            res["extra"]["scheduler_switches"] = sum(sc_.switches for sc_ in scheds_used)
            res["extra"]["fs_call_yield_points"] = sum(1 for sc_ in scheds_used for e in sc_.events if isinstance(e[2], tuple) and e[2][0] == "fs")
        res["probes"]["solid_folder_with_skipped_predecessor"] = 1 if any(_position(built, m) in ("mid", "last") for c in case["calls"] for m in rsess.restrict(built.model, c["targets"], c["recursive"])) else 0
        res["digest"] = digest_of(log)
        res["sample"] = {"members": [(m.name, m.kind, len(m.data) if m.data is not None else None) for m in built.model][:10], "folders": built.nfolders,
                         "calls": [{k: c[k] for k in ("targets", "recursive", "as", "sink")} for c in case["calls"]], "open": case["open"], "read": case["read"]}
        return res
    finally:
        if sess is not None:
            try:
                sess.abandon()
            except Exception:
                pass
        for sc_ in scheds_used:
            sc_.shutdown()
        if scheds_used:
            for v in res["violations"]:
                if v.get("trace") is None:
                    # the decisions the seeded scheduler took, one list per session (re-derived from case["sched"]["seed"] on replay)
                    v["trace"] = {"sched": [list(sc_.choices) for sc_ in scheds_used]}
        from simkit import tree as _t

        _t.make_removable(scratch)
        shutil.rmtree(scratch, ignore_errors=True)


def _position(built, m):
    """Position of a member among the data members of its folder: first / mid / last / only / nodata."""
    if m.kind == "dir":
        return "nodata"
    ref = built.ref
    idx = 0
    data_members = [x for x in built.model if x.kind != "dir"]
    try:
        k = data_members.index(m)
    except ValueError:
        return "nodata"
    nums = ref.main["substreams"]["nums"] if ref and ref.main and ref.main["substreams"] else []
    for n in nums:
        if k < idx + n:
            if n == 1:
                return "only"
            if k == idx:
                return "first"
            if k == idx + n - 1:
                return "last"
            return "mid"
        idx += n
    return "nodata"


def shrink_candidates(case):
    import copy

    for i in range(len(case["calls"]) - 1, -1, -1):
        if len(case["calls"]) > 1:
            c = copy.deepcopy(case)
            del c["calls"][i]
            yield c
    for ci, call in enumerate(case["calls"]):
        for j in range(len(call["targets"]) - 1, -1, -1):
            if len(call["targets"]) > 1:
                c = copy.deepcopy(case)
                del c["calls"][ci]["targets"][j]
                yield c
    arc = case.get("archive") or {"sessions": []}
    if len(arc["sessions"]) > 1:
        c = copy.deepcopy(case)
        c["archive"]["sessions"].pop()
        yield c
    for si, s in enumerate(arc["sessions"]):
        for i in range(len(s["ops"]) - 1, -1, -1):
            c = copy.deepcopy(case)
            del c["archive"]["sessions"][si]["ops"][i]
            yield c
    if case["open"] != "stream":
        c = copy.deepcopy(case)
        c["open"] = "stream"
        yield c
    for k, v in (("block", 1048576), ("chunk", 128000000)):
        if case["read"][k] != v:
            c = copy.deepcopy(case)
            c["read"][k] = v
            yield c


def case_class(case):
    if "ref" in case:
        return gen.dep_flags([[{"id": f["id"]} for f in fo["chain"]] for fo in case["ref"]["layout"]["folders"]], case["read"]["chunk"], case["read"]["block"])
    return gen.dep_flags([s.get("chain") for s in case["archive"]["sessions"]], case["read"]["chunk"], case["read"]["block"])
