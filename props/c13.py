"""C13  Extraction results do not depend on scheduling; worker errors reach the caller.  Engine csim (DESIGN.md 4, C13):
py7zr's worker threads are real threads that only run while they hold the simulated scheduler's baton; every hand-over
(queue put/get, archive read of a worker's own handle, output create/write, thread start/exit/join) is a seeded decision."""
import os
import shutil

from props import rsess
from simkit import driver, gen, rw, tree
from simkit.device import SimFS, SimRaw
from simkit.prng import Rng
from simkit.sched import Deadlock, FsYield, Scheduler, SchedTime, SimKill, make_queue_module, make_thread_class
from simkit.seams import Seams, digest_of, import_py7zr

import ref7z

PROPERTY = "C13"
ENGINE = "csim"
LEVEL = "exploration"
INTERLEAVING_MEASURE = "hash of the (thread, output member) sequence at output create/write granularity per (archive, variant, damage)"
RULE = ("case = seeded multi-folder archive (2..4 folders x 1..3 members, py7zr appends) x {intact, one folder's packed stream damaged at a seeded "
        "position, an unwritable output injected by the factory} x variants: thread-parallel (opened by path; worker threads stepped by the baton "
        "scheduler at archive-read / output-write / queue / start / exit / join granularity, strategies random walk, PCT, starve-one, several seeded "
        "schedules per case), process-parallel (mp=True, real fork, seeded release order), sequential (opened by stream), plus 2..3 independent "
        "SevenZipFile objects extracting the same path concurrently under the same scheduler. Oracle: intact => outputs identical to the model for "
        "every explored schedule and variant; damaged => whether the damage must surface is decided by the strict reference reader; if so the call "
        "raises in every variant; no deadlock. One evaluation = one scheduled extraction. distinct = interleaving signature x (archive, variant, "
        "damage); non-trivial = >= 1 context switch between two workers while both were mid-folder.")
ASSUMPTIONS = ["pre-emption happens only at the seams listed (no line-level pre-emption in the quick tier); workers share no other state",
               "intra-child interleavings of mp=True are not explored (children share only the output directory)"]
COMPONENTS = {"real": ["py7zr extraction workers (real OS threads / forked processes)", "codec libraries"],
              "stub": ["scheduling (baton scheduler)", "queue.Queue", "threading.Thread", "multiprocessing.Process (fork + seeded release)", "archive device", "factory outputs", "clock"]}


def plan(tier):
    if tier == "thorough":
        return {"n": None, "budget_s": int(os.environ.get("VERIF_BUDGET_S", "900")), "case_timeout": 300}
    return {"n": 700, "budget_s": 170, "case_timeout": 120}


def gen_case(rng: Rng, i: int, tier: str):
    r = rng.sub("k")
    arc = rsess.gen_archive(rng.sub("arc"), tier, want_multi=True, encrypted=False, want_dirs=None if r.chance(0.5) else False, maxlen=1500)
    damage = r.wpick([(5, None), (4, "flip"), (2, "flip_many"), (2, "unwritable")])
    if rng.sub("reopen").chance(0.06):
        damage = "reopen_fails"
    nsched = 6 if tier == "quick" else 24
    scheds = []
    for k in range(nsched):
        kind = r.wpick([(5, "random"), (3, "pct"), (2, "starve")])
        st = {"kind": kind, "seed": r.randrange(1 << 30)}
        if kind == "random":
            st["stay"] = r.pick([0.2, 0.5, 0.8])
        elif kind == "pct":
            st["points"] = sorted(r.sample(range(2, 120), r.randint(1, 3)))
        else:
            st["victim"] = r.randint(1, 4)
        if tier == "thorough" and r.chance(0.5):
            st["line_p"] = r.pick([0.005, 0.02, 0.1])  # line-level pre-emption inside py7zr frames
        scheds.append(st)
    case = {"archive": arc, "damage": damage, "dseed": r.randrange(1 << 30), "scheds": scheds, "sink": r.wpick([(4, "factory"), (1, "path")]),
            "concurrent_sessions": r.wpick([(4, 0), (1, 2), (1, 3)]), "mp": r.chance(0.4)}
    rr = rng.sub("ref")
    if rr.chance(0.25):
        # a multi-folder archive of the reference writer: several members per folder, per-member CRCs or only one CRC per
        # folder, codecs that do not notice damage themselves (Copy) - layouts py7zr's own writer never makes
        from props import c06

        for attempt in range(20):
            c = c06.gen_case(rng.sub("ref%d" % attempt), 10 ** 6, tier)
            if "members" not in c or len([f for f in c["layout"]["folders"] if f["members"]]) < 2 or c["layout"].get("password") is not None:
                continue
            if any(m["kind"] == "symlink" for m in c["members"]):
                continue
            c["layout"]["crc"] = rr.pick(["folder", "folder", "substream"])
            c["layout"]["header_crc"] = True
            if rr.chance(0.5):
                for f in c["layout"]["folders"]:
                    if rr.chance(0.6):
                        f["chain"] = [{"id": "COPY"}]
            if not any(len(f["members"]) >= 2 for f in c["layout"]["folders"][:-1]) and attempt < 12:
                continue  # prefer a folder of several members that is not the last one
            del case["archive"]
            case["ref"] = {"members": c["members"], "layout": c["layout"]}
            case["damage"] = rr.pick(["flip", "flip", "flip_many", None])
            case["sink"] = rr.pick(["factory", "factory", "path"])
            break
    # the I/O block the workers read in: the default 1 MiB swallows these archives whole; small blocks make every worker come
    # back to the file many times (more scheduling points) and let decoders finish before the last block is read
    case["block"] = rng.sub("block").wpick([(5, None), (2, 64), (2, 4096)])
    return case


class _Unwritable(Exception):
    pass


def _factory(sched, fail_name=None):
    base = rw.make_factory()

    class F(type(base)):
        def create(self, filename):
            if sched is not None:
                sched.yield_(("out", "create:" + filename))
            if fail_name is not None and filename == fail_name:
                raise OSError(13, "Permission denied (injected unwritable output)", filename)
            p = super().create(filename)
            orig = p.write

            def w(s, _o=orig, _n=filename):
                if sched is not None:
                    sched.yield_(("out", _n))
                return _o(s)

            p.write = w
            return p

    return F()


def _run_threads(py7zr, image, strat, sink, outdir, fail_name, nsessions=1, open_faults=None):
    """One thread-parallel extraction under a fresh scheduler.  Returns (outcome, outputs, sched)."""
    rng = Rng(strat["seed"], "sched")
    sched = Scheduler(rng=rng, replay=strat.get("replay"), strategy=strat)

    def hook(dev, kind, off, n):
        if kind == "r" and sched.current != 0:
            sched.yield_(("io", dev.handle_id & 0xFF))

    fs = SimFS(hook=hook)
    fs.add(rsess.READ_PATH, image)
    if open_faults:
        fs.open_faults = dict(open_faults)
    import py7zr.py7zr as P

    extra = [(P, "Thread", make_thread_class(sched)), (P, "queue", make_queue_module(sched)), (P, "time", SchedTime(sched))]
    results = []
    import contextlib

    # extraction to a directory: every filesystem call of a worker is a scheduling point too
    fsy = FsYield(sched, outdir) if (outdir and sink != "factory") else contextlib.nullcontext()
    with Seams(fs=fs, extra=extra, blocksize=_BLOCK[0]), fsy:
        try:
            if nsessions <= 1:
                results.append(_one_extract(py7zr, sched, sink, outdir, fail_name))
            else:
                # independent SevenZipFile objects on the same path, each driven by its own simulated caller thread
                slots = [None] * nsessions
                callers = []
                for k in range(nsessions):
                    def body(k=k):
                        slots[k] = _one_extract(py7zr, sched, sink, os.path.join(outdir, "s%d" % k) if outdir else None, None)

                    t = sched.spawn(body, name="caller%d" % k)
                    callers.append(t)
                for t in callers:
                    sched.start(t)
                for t in callers:
                    sched.join(t)
                results = slots
            dead = None
        except Deadlock as e:
            dead = str(e)
        finally:
            # a worker that is still alive when the caller has its result (or its exception) keeps writing behind the
            # caller's back: recorded before the run is torn down
            sched.leftover = [t.name for t in sched.threads[1:] if t.state != "done" and not t.daemon and not t.name.startswith("caller")]
            sched.shutdown()
    sched.open_faults_fired = getattr(fs, "open_faults_fired", 0)
    return results, dead, sched


def _one_extract(py7zr, sched, sink, outdir, fail_name):
    try:
        z = py7zr.SevenZipFile(rsess.READ_PATH, "r")
    except Exception as e:
        return ("open_error", e, None)
    try:
        if sink == "factory":
            fac = _factory(sched, fail_name)
            z.extractall(factory=fac)
            out = fac.result()
        else:
            shutil.rmtree(outdir, ignore_errors=True)
            os.makedirs(outdir)
            z.extractall(path=outdir)
            out = rsess.snapshot_tree(outdir)
        return ("ok", None, out)
    except (SimKill, Deadlock):
        raise
    except Exception as e:
        return ("raised", e, None)
    finally:
        try:
            z.close()
        except Exception:
            pass


def _run_plain(py7zr, image, kind, sink, outdir, fail_name, mp=False, order_seed=0):
    """Sequential (stream) or process-parallel (mp=True, by path) extraction without the thread scheduler."""
    fs = SimFS()
    fs.add(rsess.READ_PATH, image)
    import py7zr.py7zr as P

    extra = []
    if mp:
        extra = [(P, "Process", _make_process_class(Rng(order_seed, "mp")))]
    with Seams(fs=fs, extra=extra, inline_threads=not mp, blocksize=_BLOCK[0]):
        try:
            target = rsess.READ_PATH if kind == "path" else SimRaw(fs.get(rsess.READ_PATH), readable=True)
            z = py7zr.SevenZipFile(target, "r", mp=mp)
        except Exception as e:
            return ("open_error", e, None)
        try:
            if sink == "factory":
                fac = _factory(None, fail_name)
                z.extractall(factory=fac)
                out = fac.result()
            else:
                shutil.rmtree(outdir, ignore_errors=True)
                os.makedirs(outdir)
                z.extractall(path=outdir)
                out = rsess.snapshot_tree(outdir)
            return ("ok", None, out)
        except Exception as e:
            return ("raised", e, None)
        finally:
            try:
                z.close()
            except Exception:
                pass


def _make_process_class(rng):
    """multiprocessing.Process stand-in: a real fork (real memory isolation); children are held at a pipe and released
    one at a time, in a seeded order, when the parent first joins."""
    pending = []

    class SimProcess:
        def __init__(self, group=None, target=None, name=None, args=(), kwargs=None, daemon=None):
            self._target, self._args, self._kwargs = target, args, kwargs or {}
            self.pid = None
            self._gate = None
            self.exitcode = None

        def start(self):
            r, w = os.pipe()
            pid = os.fork()
            if pid == 0:
                os.close(w)
                try:
                    os.read(r, 1)
                    self._target(*self._args, **self._kwargs)
                    code = 0
                except BaseException:
                    code = 1
                finally:
                    os._exit(code if "code" in dir() else 1)
            os.close(r)
            self.pid = pid
            self._gate = w
            pending.append(self)

        def join(self, timeout=None):
            if pending:
                order = list(pending)
                rng.shuffle(order)
                del pending[:]
                for p in order:
                    os.write(p._gate, b"x")
                    os.close(p._gate)
                    _, st = os.waitpid(p.pid, 0)
                    p.exitcode = os.waitstatus_to_exitcode(st)

        def is_alive(self):
            return self.exitcode is None

    return SimProcess


_BLOCK = [None]  # the I/O block size of the case (None = the library's 1 MiB), read by both runners


def _block_of(case):
    # derived from the case, so that older replay files (without the field) keep their meaning: the default block
    if "block" in case:
        return case["block"]
    return None


def run_case(case):
    py7zr = import_py7zr()
    res = {"evals": 0, "violations": [], "faults": {}, "probes": {}, "rejected": {}, "classes": {}, "sigs": [], "interleavings": [], "extra": {}}
    _BLOCK[0] = _block_of(case)
    built = rsess.build_from_ref(case["ref"]) if "ref" in case else rsess.build_archive(case["archive"])
    if built.rejected or built.error is not None or built.image is None or built.nfolders < 2:
        res["extra"]["archive_skipped"] = 1
        res["digest"] = digest_of(["skipped"])
        return res
    image = built.image
    model_products = rsess.expected_products(built.model)
    model_tree = rsess.expected_tree(built.model)
    scratch = os.path.join(driver.worker_scratch(), "c13")
    shutil.rmtree(scratch, ignore_errors=True)
    os.makedirs(scratch)
    outdir = os.path.join(scratch, "out")
    r = Rng(case["dseed"], "damage")
    fail_name = None
    must_raise = False
    dmg_desc = None
    open_faults = None
    ref = built.ref
    pi = ref.main["packinfo"]
    if case["damage"] in ("flip", "flip_many"):
        js = [r.randrange(len(pi["sizes"]))] if case["damage"] == "flip" else [j for j in range(len(pi["sizes"])) if r.chance(0.8)]
        js = [j for j in js if pi["sizes"][j] > 0]
        if js:
            d = bytearray(image)
            offs = []
            for j in js:
                off = 32 + pi["packpos"] + sum(pi["sizes"][:j]) + r.randrange(pi["sizes"][j])
                d[off] ^= 1 << r.randrange(8)
                offs.append(off)
            image = bytes(d)
            dmg_desc = ("flip", tuple(js), tuple(offs))
            nums = ref.main["substreams"]["sizes"]
            holds_data = any(sum(nums[j]) > 0 for j in js if j < len(nums))
            try:
                a = ref7z.read(image, None)
                must_raise = [(m.name, m.data) for m in a.members] != [(m.name, m.data if m.kind != "dir" else None) for m in built.model]
            except (ref7z.FormatError, ref7z.CodecError):
                must_raise = holds_data
                if must_raise:
                    # second opinion (as in C19): the reference reader's one-shot decoders also reject a stream whose own check
                    # value or trailer is hit while every member byte is intact (BZip2 block CRC behind a 1-byte member: py7zr
                    # has its byte, and the member's CRC, before the decoder gets there).  If the library's sequential path
                    # delivers exactly the archived bytes there is nothing that must surface.
                    o2 = _run_plain(py7zr, image, "stream", "factory", outdir, None)
                    if o2[0] == "ok" and o2[2] == model_products:
                        must_raise = False
                        res["extra"]["reference_rejects_but_every_byte_is_delivered"] = 1
            except ref7z.Unsupported:
                must_raise = False
            res["faults"]["worker_damaged_folder"] = 1
    elif case["damage"] == "reopen_fails":
        # the workers open the archive by name for themselves: the k-th of those opens fails (file renamed away, descriptor
        # table full).  Only the thread-parallel variant has such opens; whether the fault fired is read off the device.
        open_faults = {1 + r.randrange(built.nfolders): r.pick([2, 13, 24])}
        dmg_desc = ("reopen_fails", tuple(sorted(open_faults.items())))
        res["faults"]["worker_reopen_fails"] = 1
    elif case["damage"] == "unwritable" and case["sink"] == "factory" and model_products:
        fail_name = r.pick(sorted(model_products))
        must_raise = True
        dmg_desc = ("unwritable", fail_name)
        res["faults"]["unwritable_output"] = 1
    cls = {"sink": case["sink"], "damage": case["damage"] if dmg_desc else None, "folders": built.nfolders}
    cls.update(case_class(case))
    if "ref" in case:
        cls["source"] = "ref7z"
    want = model_products if case["sink"] == "factory" else model_tree
    log = []

    def viol(oracle, site, detail, **extra):
        c = dict(cls)
        c.update(extra)
        res["violations"].append({"fp": {"oracle": oracle, "site": site, "class": c}, "detail": detail})

    outcomes = []  # (variant, 'raised' | 'ok') for damaged archives: all variants must agree

    def judge(variant, outcome, sched_desc=None):
        kind, err, out = outcome
        if kind == "open_error":
            if dmg_desc is None:
                viol("open_failed", variant, "intact multi-folder archive does not open: %r" % err, variant=variant)
            return
        if dmg_desc is not None:
            # a damaged archive may always be refused; what it may not do is succeed with other content, lose an error
            # that must surface, or behave differently from one variant / schedule to the next
            if kind == "ok":
                if must_raise:
                    viol("worker_error_lost", variant, "damage %r must surface, but extractall returned normally (%s)" % (dmg_desc, sched_desc or variant), variant=variant)
                elif out != want:
                    viol("output_depends_on_schedule", variant, "damaged-but-recoverable archive: outputs differ from the reference (%s)" % (sched_desc or variant), variant=variant)
            outcomes.append((variant, kind, sched_desc))
            return
        if kind == "raised":
            viol("unexpected_error", variant, "intact archive: extractall raised %r (%s)" % (err, sched_desc or variant), variant=variant, error=type(err).__name__)
        elif out != want:
            missing = sorted(set(want) - set(out))
            extra_ = sorted(set(out) - set(want))
            diff = sorted(k for k in want if k in out and out[k] != want[k])
            viol("output_depends_on_schedule", variant, "outputs differ from the sequential reference: missing %r unexpected %r different %r (%s)" % (
                missing[:3], extra_[:3], diff[:3], sched_desc or variant), variant=variant)

    try:
        # sequential reference path (stream)
        if open_faults is None:
            o = _run_plain(py7zr, image, "stream", case["sink"], outdir, fail_name)
            res["evals"] += 1
            judge("sequential", o)
            log.append(("seq", o[0], type(o[1]).__name__))
        # process-parallel
        if case.get("mp") and open_faults is None:
            o = _run_plain(py7zr, image, "path", case["sink"], outdir, fail_name, mp=True, order_seed=case["dseed"])
            res["evals"] += 1
            judge("processes", o)
            log.append(("mp", o[0], type(o[1]).__name__))
            res["probes"]["process_parallel_runs"] = 1
        # thread-parallel under the scheduler
        for si, strat in enumerate(case["scheds"]):
            if case.get("only_sched") is not None and si != case["only_sched"]:
                continue
            results, dead, sched = _run_threads(py7zr, image, strat, case["sink"], outdir, fail_name, open_faults=open_faults)
            res["evals"] += 1
            if open_faults is not None:
                # the failed open must reach the caller exactly when it happened
                must_raise = bool(sched.open_faults_fired)
                outcomes[:] = []
                res["probes"]["worker_reopen_fault_fired"] = max(res["probes"].get("worker_reopen_fault_fired", 0), 1 if must_raise else 0)
            if dead is not None:
                viol("deadlock", "threads", "scheduler found no runnable thread: %s (strategy %r)" % (dead, strat), variant="threads")
            elif getattr(sched, "leftover", None):
                viol("workers_outlive_the_call", "threads", "extractall returned/raised while %d worker thread(s) were still running (schedule %d %r)" % (
                    len(sched.leftover), si, strat["kind"]), variant="threads")
            for o in results:
                if o is not None:
                    judge("threads", o, "schedule %d %r, %d decisions" % (si, strat["kind"], len(sched.choices)))
                    log.append(("thr", si, o[0], type(o[1]).__name__, len(sched.choices)))
            sig = sched.interleaving_signature(("out",))
            res["interleavings"].append(digest_of([built.image[:64], dmg_desc, sig])[:16])
            workers_interleaved = _interleaved(sig)
            res["sigs"].append(([digest_of(built.image)[:10], str(dmg_desc), digest_of(sig)[:12]], workers_interleaved))
            res["extra"]["context_switches"] = res["extra"].get("context_switches", 0) + sched.switches
            res["extra"]["scheduler_decisions"] = res["extra"].get("scheduler_decisions", 0) + len(sched.choices)
            res["extra"]["line_preemptions"] = res["extra"].get("line_preemptions", 0) + len(sched.line_yields)
            res["extra"]["fs_call_yield_points"] = res["extra"].get("fs_call_yield_points", 0) + sum(1 for e in sched.events if isinstance(e[2], tuple) and e[2][0] == "fs")
            for v in res["violations"]:
                if v.get("trace") is None and v["fp"].get("class", {}).get("variant") == "threads":
                    # the explicit schedule of the failing run: replaying these decisions needs no PRNG
                    v["trace"] = {"schedule_index": si, "sched": list(sched.choices), "line_yields": list(sched.line_yields)}
            for e in [t.error for t in sched.threads if t.error not in (None, "deadlock")]:
                viol("uncaught_exception_in_worker", "threads", "a worker thread died with %r" % e, variant="threads")
        if case.get("concurrent_sessions") and not dmg_desc:
            strat = dict(case["scheds"][0])
            results, dead, sched = _run_threads(py7zr, image, strat, case["sink"], outdir, None, nsessions=case["concurrent_sessions"])
            res["evals"] += 1
            res["probes"]["concurrent_sessions"] = 1
            if dead is not None:
                viol("deadlock", "concurrent_sessions", "deadlock with %d concurrent sessions: %s" % (case["concurrent_sessions"], dead), variant="concurrent")
            for k, o in enumerate(results):
                if o is None:
                    viol("session_lost", "concurrent_sessions", "concurrent session %d did not finish" % k, variant="concurrent")
                else:
                    judge("concurrent", o, "session %d of %d" % (k, case["concurrent_sessions"]))
        if dmg_desc is not None and len({k for _, k, _ in outcomes}) > 1:
            oks = [v for v, k, _ in outcomes if k == "ok"]
            bad = [v for v, k, _ in outcomes if k != "ok"]
            viol("outcome_depends_on_schedule", "variants", "damage %r: %d runs succeeded (%s) and %d raised (%s)" % (dmg_desc, len(oks), sorted(set(oks)), len(bad), sorted(set(bad))),
                 variant="mixed", ok=sorted(set(oks)), raised=sorted(set(bad)))
        res["probes"]["damage_must_surface"] = 1 if must_raise else 0
        res["probes"]["workers_interleaved_mid_folder"] = 1 if any(nt for _, nt in res["sigs"]) else 0
        res["digest"] = digest_of([built.image, log])
        res["sample"] = {"folders": built.nfolders, "members": [(m.name, m.kind) for m in built.model][:8], "damage": dmg_desc, "must_raise": must_raise,
                         "sink": case["sink"], "schedules": [s["kind"] for s in case["scheds"]], "mp": case.get("mp")}
        return res
    finally:
        tree.make_removable(scratch)
        shutil.rmtree(scratch, ignore_errors=True)


def _interleaved(sig):
    """True if two different worker threads alternate at output granularity (A ... B ... A)."""
    seq = [tid for tid, _ in sig if tid != 0]
    seen = []
    for t in seq:
        if not seen or seen[-1] != t:
            seen.append(t)
    return len(seen) > len(set(seen))


def shrink_candidates(case):
    import copy

    if case.get("only_sched") is None:
        for si in range(len(case["scheds"])):
            c = copy.deepcopy(case)
            c["only_sched"] = si
            yield c
    if case.get("mp"):
        c = copy.deepcopy(case)
        c["mp"] = False
        yield c
    if case.get("concurrent_sessions"):
        c = copy.deepcopy(case)
        c["concurrent_sessions"] = 0
        yield c
    arc = case.get("archive") or {"sessions": []}
    if len(arc["sessions"]) > 2:
        c = copy.deepcopy(case)
        c["archive"]["sessions"].pop()
        yield c
    for si, s in enumerate(arc["sessions"]):
        for i in range(len(s["ops"]) - 1, -1, -1):
            if len(s["ops"]) > 1:
                c = copy.deepcopy(case)
                del c["archive"]["sessions"][si]["ops"][i]
                yield c


def case_class(case):
    if "ref" in case:
        return gen.dep_flags([[{"id": f["id"]} for f in fo["chain"]] for fo in case["ref"]["layout"]["folders"]], None, None)
    return gen.dep_flags([s.get("chain") for s in case["archive"]["sessions"]], None, None)
