"""C15  A failed write call does not poison the archive.  Engine wsim + source faults (DESIGN.md 4, C15).
Level fault_enumeration: for every sampled write history, every call index x every applicable fault kind is injected
(one fault per run)."""
import copy
import errno
import io
import os
import shutil

from simkit import driver, gen, rw, tree
from simkit.device import SimFS, SimRaw
from simkit.faults import PLAN, FaultBio, FaultPath
from simkit.prng import Rng
from simkit.seams import Seams, SimClock, SimRandom, digest_of, import_py7zr

import ref7z

PROPERTY = "C15"
ENGINE = "wsim+source-faults"
LEVEL = "fault_enumeration"
RULE = ("case = seeded write history of 1..5 calls over {write, writestr, writef, writeall} (optionally appending to a base archive), chain, header mode, "
        "close via explicit close / context manager / exception leaving the with-block; the engine enumerates EVERY call index x EVERY applicable fault "
        "kind (source missing; lstat EACCES/EIO/ValueError; open EACCES/EIO/ValueError; read EIO after k bytes for k in {0,1,block-1,block,block+1,last}; rejected arcname) "
        "- one fault per run - and checks: the exception reaches the caller; for faults before any source byte was consumed the closed archive holds "
        "exactly the members of the successful calls, intact (py7zr and ref7z), and the failed source is never opened again; for mid-read faults the "
        "closed file fails to open or delivers only right bytes for members of successful calls. One evaluation = one fault run. "
        "distinct = (history digest, call index, fault kind, offset); non-trivial = the injected fault fired.")
ASSUMPTIONS = ["faults are injected at the pathlib / file-object boundary (FaultPath, FaultBio); kernel-level partial reads are not modelled",
               "members a failed writeall had already added before the fault may stay in the archive (they must be intact)"]
COMPONENTS = {"real": ["py7zr writer/reader", "tmpfs sources", "codec libraries"], "stub": ["raw archive device", "source objects (FaultPath/FaultBio)", "clock", "IV randomness"]}


def plan(tier):
    if tier == "thorough":
        return {"n": None, "budget_s": int(os.environ.get("VERIF_BUDGET_S", "900")), "case_timeout": 300}
    return {"n": 400, "budget_s": 170, "case_timeout": 120}


def gen_case(rng: Rng, i: int, tier: str):
    r = rng.sub("ops")
    knobs = gen.gen_knobs(rng.sub("knobs"))
    knobs["block"] = r.pick([16, 255, 4096, 32768])
    ncalls = r.randint(1, 5)
    used = []
    calls = []
    for k in range(ncalls):
        op = r.wpick([(4, "write"), (3, "writestr"), (3, "writef"), (2, "writeall")])
        nm = None
        while nm is None or nm in used:
            nm = "c%d_" % k + gen.gen_name(r, maxdepth=2)
        used.append(nm)
        if op == "write":
            calls.append({"op": "write", "name": nm, "content": gen.gen_content(r, block=knobs["block"], maxlen=3000), "mode": 0o644, "mtime_ns": tree.gen_mtime_ns(r)})
        elif op == "writestr":
            calls.append({"op": "writestr", "name": nm, "content": gen.gen_content(r, block=knobs["block"], maxlen=3000), "as": "bytes"})
        elif op == "writef":
            calls.append({"op": "writef", "name": nm, "content": gen.gen_content(r, block=knobs["block"], maxlen=3000), "bio": r.pick(["bytesio", "buffered"])})
        else:
            calls.append({"op": "writeall", "name": nm.split("/")[0], "tree": tree.gen_tree(r, maxdepth=2, nmax=4, links=False, block=knobs["block"], maxlen=2000)})
            used.append(nm.split("/")[0])
    base = None
    if r.chance(0.3):
        base = rw.gen_session(r, "w", knobs, used, nmax=2, maxlen=1000, password=None)
    chain = gen.gen_chain(r, allow_aes=False, force_aes=False)
    if chain is not None:
        chain = [f for f in chain if f["id"] != "AES"] or None
    case = {"base": base, "calls": calls, "chain": chain, "header": r.pick(["raw", "enc"]), "close": r.pick(["close", "ctx", "ctx_propagate"]),
            "target": r.pick(["path", "stream"]), "knobs": knobs, "rng": r.randrange(1 << 30)}
    # the dereference option changes how writeall treats errors met on the walk; it is only varied for trees without links,
    # where it changes nothing else
    if not any(e["kind"] == "link" for c in calls if c["op"] == "writeall" for e in c["tree"]) and rng.sub("deref").chance(0.5):
        case["dereference"] = True
    return case


def fault_list(case):
    """Every (call index, fault) applicable to the history."""
    out = []
    B = case["knobs"]["block"]
    for i, c in enumerate(case["calls"]):
        if c["op"] == "write":
            n = c["content"]["len"]
            out += [(i, {"kind": "missing"}), (i, {"kind": "lstat", "errno": errno.EACCES}), (i, {"kind": "lstat", "errno": errno.EIO}),
                    (i, {"kind": "open", "errno": errno.EACCES}), (i, {"kind": "open", "errno": errno.EIO}), (i, {"kind": "arcname_rejected"}),
                    (i, {"kind": "lstat", "errno": 0, "exc": "ValueError"}), (i, {"kind": "open", "errno": 0, "exc": "ValueError"}),
                    # a source that is no regular file, directory or link (a FIFO), and a name that cannot be stored
                    (i, {"kind": "special_file"}), (i, {"kind": "arcname_rejected", "name": "bad${SURR}name"}),
                    (i, {"kind": "arcname_rejected", "name": "bad${SURR}path", "as_path": True})]
            for k in sorted({0, 1, B - 1, B, B + 1, n}):
                if 0 <= k <= n:
                    out.append((i, {"kind": "read", "after": k}))
        elif c["op"] == "writestr":
            out += [(i, {"kind": "name_rejected", "name": "../evil"}), (i, {"kind": "name_rejected", "name": "/abs/name"}), (i, {"kind": "name_rejected", "name": "a/../../b"}),
                    (i, {"kind": "name_rejected", "name": "un${SURR}storable"})]
        elif c["op"] == "writef":
            n = c["content"]["len"]
            out += [(i, {"kind": "name_rejected", "name": "../evil"}), (i, {"kind": "name_rejected", "name": "/abs"}), (i, {"kind": "name_rejected", "name": "x/${SURR}"})]
            for k in sorted({0, 1, B - 1, B, B + 1, n}):
                if 0 <= k <= n:
                    out.append((i, {"kind": "read", "after": k}))
        else:
            out.append((i, {"kind": "missing"}))
            files = [e for e in c["tree"] if e["kind"] == "file"]
            for j, e in enumerate(c["tree"]):
                out.append((i, {"kind": "lstat", "errno": errno.EACCES, "child": e["path"]}))
                if e["kind"] == "file":
                    out.append((i, {"kind": "open", "errno": errno.EIO, "child": e["path"]}))
                    out.append((i, {"kind": "read", "after": min(1, e["content"]["len"]), "child": e["path"]}))
    return out


def _one_run(case, fi, fault, res):
    py7zr = import_py7zr()
    knobs = case["knobs"]
    PLAN.specs.clear()
    del PLAN.log[:]
    del PLAN.fired[:]
    fs = SimFS(buffer_size=knobs["bufsize"])
    src = os.path.join(driver.worker_scratch(), "c15src")
    shutil.rmtree(src, ignore_errors=True)
    os.makedirs(src)
    pre_consumption = fault["kind"] in ("missing", "lstat", "open", "arcname_rejected", "name_rejected", "special_file")
    cls = {"fault": fault["kind"] + ("-" + fault["exc"] if fault.get("exc") else ""), "op": case["calls"][fi]["op"], "close": case["close"], "append": case["base"] is not None}
    cls.update(case_class(case))
    cls["dereference"] = bool(case.get("dereference"))
    if "child" in fault:
        cls["in_tree"] = True

    def viol(oracle, site, detail, **extra):
        c = dict(cls)
        c.update(extra)
        res["violations"].append({"fp": {"oracle": oracle, "site": site, "class": c}, "detail": detail, "sub": [fi, fault]})

    model = []  # list of (name, data|None kind) expected for certain
    optional = []  # members a failed writeall may have left (name -> data)
    failed_paths = []
    with Seams(fs=fs, blocksize=knobs["block"], memlimit=knobs["chunk"], clock=SimClock(tick=0.001), rand=SimRandom(Rng(case["rng"], "iv"))):
        mode = "w"
        if case["base"] is not None:
            added, err = rw.run_write_session(fs, case["base"], case["target"], knobs["bufsize"])
            if err is not None:
                return "base_failed"
            model += [(m.name, m.data, m.kind) for m in added]
            mode = "a"
        if case["target"] == "path":
            target, fin = rw.SIM_PATH, (lambda: None)
        else:
            if rw.SIM_PATH not in fs.files:
                fs.add(rw.SIM_PATH)
            raw = SimRaw(fs.get(rw.SIM_PATH), readable=True, writable=True)
            target, fin = raw, raw.close
        kwargs = {}
        if case.get("dereference"):
            kwargs["dereference"] = True
        filters = gen.to_filters(case["chain"])
        if filters is not None:
            kwargs["filters"] = filters
        state = {"fired": None, "rejected": False}
        stop_after_fault = case["close"] == "ctx_propagate"

        def body(z):
            if case["header"] == "raw":
                z.set_encoded_header_mode(False)
            for i, c in enumerate(case["calls"]):
                inject = fault if i == fi else None
                try:
                    exp, opt = _do_call(z, c, i, src, inject, failed_paths)
                    if inject is not None:
                        viol("fault_swallowed", c["op"], "call %d (%s) with injected %r returned normally" % (i, c["op"], fault))
                    model.extend(exp)
                except py7zr.exceptions.UnsupportedCompressionMethodError:
                    if i == 0 and case["base"] is None:
                        state["rejected"] = True
                        return
                    raise
                except Exception as e:
                    if inject is None and not pre_consumption and i > fi:
                        # after a source failed midway the statement only demands that the file never opens with wrong
                        # contents; a later call that fails is tolerated (and ends the session like a caller would)
                        res["probes"]["later_call_failed_after_midread_fault"] = res["probes"].get("later_call_failed_after_midread_fault", 0) + 1
                        return
                    if inject is None:
                        viol("unrelated_call_failed", c["op"], "call %d (%s) without fault raised %r after the fault in call %d" % (i, c["op"], e, fi), error=type(e).__name__,
                             after_fault=i > fi)
                        return
                    state["fired"] = e
                    want = _expected_exception(fault, py7zr)
                    if not isinstance(e, want):
                        viol("wrong_exception", c["op"], "injected %r surfaced as %r" % (fault, e), error=type(e).__name__)
                    elif isinstance(e, OSError) and fault.get("errno") and e.errno != fault["errno"]:
                        viol("wrong_exception", c["op"], "injected errno %d surfaced as %r" % (fault["errno"], e))
                    if c["op"] == "writeall":
                        optional.extend(_writeall_members(c))
                    if stop_after_fault:
                        raise  # the exception leaves the with-block

        close_exc = None
        try:
            if case["close"] == "close":
                try:
                    z = py7zr.SevenZipFile(target, mode, **kwargs)
                except py7zr.exceptions.UnsupportedCompressionMethodError:
                    fin()
                    return "rejected"
                try:
                    body(z)
                finally:
                    try:
                        z.close()
                    except Exception as e:
                        close_exc = e
            else:
                try:
                    z0 = py7zr.SevenZipFile(target, mode, **kwargs)
                except py7zr.exceptions.UnsupportedCompressionMethodError:
                    fin()
                    return "rejected"
                try:
                    with z0 as z:
                        body(z)
                except Exception as e:
                    if e is not state["fired"]:
                        close_exc = e  # raised by __exit__ -> close()
        finally:
            rw._absorb_dealloc_noise(False)
            fin()
        if state["rejected"]:
            return "rejected"
        fired_exc = state["fired"]
    if fired_exc is None and not any(v["fp"]["oracle"] == "fault_swallowed" for v in res["violations"]):
        return "not_fired"
    res["faults"][fault["kind"]] = res["faults"].get(fault["kind"], 0) + 1
    # failed source must not be touched again
    if failed_paths and pre_consumption:
        # (the statement forbids retrying a source that could not be opened / whose arguments were rejected; after a
        # failure midway through reading it only demands that the file never opens with wrong contents)
        opens = [ev for ev in PLAN.log if ev[0] == "open" and ev[1] in failed_paths]
        limit = 1 if fault["kind"] in ("open", "read") else 0
        if len(opens) > limit:
            viol("failed_source_retried", "later_call", "the failed source %s was opened %d times" % (failed_paths[0], len(opens)))
    image = fs.get(rw.SIM_PATH).snapshot()
    if close_exc is not None:
        if pre_consumption:
            viol("close_raised", "close", "close() after the failed call raised %r" % close_exc, error=type(close_exc).__name__)
        outcome = ("close_raised", type(close_exc).__name__)
    else:
        outcome = ("closed",)
    want_names = [n for n, _, _ in model]
    want = {n: d for n, d, k in model if k != "dir"}
    optmap = {n: d for n, d, k in optional if k != "dir"}
    optnames = [n for n, _, _ in optional]
    for site in ("py7zr", "ref7z"):
        try:
            if site == "py7zr":
                r = rw.read_image(image, kind="stream")
                if r.error is not None:
                    raise r.error
                names, got = r.names, r.products
            else:
                a = ref7z.read(image)
                if a.undecoded:
                    continue
                if ref7z.enforced_issues(a):
                    raise ref7z.FormatError("sizecrc", str(a.issues[:2]))
                names, got = a.names(), {m.name: m.data for m in a.members if m.data is not None}
        except Exception as e:
            if pre_consumption and close_exc is None:
                viol("archive_poisoned", site, "after the failed call and close() the archive does not read back: %r" % e, error=type(e).__name__)
            continue
        if pre_consumption:
            core = [n for n in names if n not in optnames]
            if core != want_names:
                viol("members_differ", site, "archive lists %r, successful calls wrote %r" % (names[:8], want_names[:8]))
                continue
        for n, d in got.items():
            ref = want.get(n, optmap.get(n))
            if ref is None:
                if n in want or n in optmap:
                    continue
                if pre_consumption:
                    viol("members_differ", site, "unexpected member %r delivered" % n)
                continue
            if d != ref:
                viol("wrong_contents", site, "member %r of a successful call delivered with %d bytes, %d expected" % (n, len(d), len(ref)), pre=pre_consumption)
                break
        else:
            if pre_consumption:
                miss = [n for n in want if n not in got]
                if miss:
                    viol("members_differ", site, "members %r not delivered" % miss[:4])
    return outcome


def _expected_exception(fault, py7zr):
    k = fault["kind"]
    if k == "missing":
        return (OSError, ValueError)  # writeall documents ValueError('specified path does not exist.')
    if fault.get("exc") == "ValueError":
        return ValueError
    if k in ("lstat", "open", "read"):
        return OSError
    if k == "special_file":
        return ValueError
    if k == "name_rejected":
        return ValueError
    if k == "arcname_rejected":
        return (py7zr.exceptions.AbsolutePathError, ValueError)
    return Exception


def _writeall_members(c):
    out = []
    for nm, kind, payload in tree.writeall_order(c["tree"], c["name"]):
        out.append((nm, payload if kind == "file" else (payload.encode() if kind == "link" else None), "dir" if kind == "dir" else "file"))
    return out


def _do_call(z, c, i, src, inject, failed_paths):
    """Perform one write call; returns (members added for certain, optional members)."""
    if c["op"] == "writestr":
        data = gen.materialize(c["content"])
        name = c["name"]
        if inject is not None:
            name = inject["name"].replace("${SURR}", "\udc80")
        z.writestr(data, name)
        return [(name, data, "file")], []
    if c["op"] == "writef":
        data = gen.materialize(c["content"])
        name = c["name"]
        if inject is not None and inject["kind"] == "name_rejected":
            name = inject["name"].replace("${SURR}", "\udc80")
        if inject is not None and inject["kind"] == "read":
            bio = FaultBio(data, after=inject["after"])
        elif c.get("bio") == "buffered":
            bio = io.BufferedReader(io.BytesIO(data))
        else:
            bio = io.BytesIO(data)
        z.writef(bio, name)
        return [(name, data, "file")], []
    if c["op"] == "write":
        data = gen.materialize(c["content"])
        p = os.path.join(src, "f%d" % i)
        if inject is not None and inject["kind"] == "special_file":
            os.mkfifo(p)
        elif not (inject is not None and inject["kind"] == "missing"):
            with open(p, "wb") as f:
                f.write(data)
            os.utime(p, ns=(c["mtime_ns"], c["mtime_ns"]))
        name = c["name"]
        if inject is not None:
            failed_paths.append(p)
            if inject["kind"] == "lstat":
                PLAN.specs[p] = {"lstat": inject.get("exc") or inject["errno"]}
            elif inject["kind"] == "open":
                PLAN.specs[p] = {"open": inject.get("exc") or inject["errno"]}
            elif inject["kind"] == "read":
                PLAN.specs[p] = {"read_after": inject["after"]}
            elif inject["kind"] == "arcname_rejected":
                name = inject.get("name", "c:c:/still/absolute").replace("${SURR}", "\udc80")
                failed_paths.pop()
        if inject is not None and inject.get("as_path"):
            import pathlib

            z.write(FaultPath(p), pathlib.PurePosixPath(name))  # the archive name given as a path object
        else:
            z.write(FaultPath(p), name)
        return [(name, data, "file")], []
    if c["op"] == "writeall":
        root = os.path.join(src, "t%d" % i)
        if not (inject is not None and inject["kind"] == "missing"):
            tree.build_tree(root, c["tree"])
        if inject is not None and "child" in inject:
            p = os.path.join(root, inject["child"])
            failed_paths.append(p)
            if inject["kind"] == "lstat":
                PLAN.specs[p] = {"lstat": inject.get("exc") or inject["errno"]}
            elif inject["kind"] == "open":
                PLAN.specs[p] = {"open": inject.get("exc") or inject["errno"]}
            else:
                PLAN.specs[p] = {"read_after": inject["after"]}
        z.writeall(FaultPath(root), c["name"])
        return _writeall_members(c), []
    raise ValueError(c["op"])


def run_case(case):
    res = {"evals": 0, "violations": [], "faults": {}, "probes": {}, "extra": {"fault_not_fired": 0}, "rejected": {}, "classes": {}, "sigs": []}
    faults = fault_list(case)
    only = case.get("only")
    log = []
    fired = 0
    try:
        for fi, fault in faults:
            if only is not None and [fi, fault] not in only:
                continue
            out = _one_run(case, fi, fault, res)
            res["evals"] += 1
            log.append((fi, sorted(fault.items()), out))
            if out == "rejected":
                res["rejected"][gen.chain_family(case["chain"])] = 1
                break
            if out == "not_fired":
                res["extra"]["fault_not_fired"] += 1
            elif out != "base_failed":
                fired += 1
                res["classes"]["%s|%s|%s" % (case["calls"][fi]["op"], fault["kind"], case["close"])] = res["classes"].get("%s|%s|%s" % (case["calls"][fi]["op"], fault["kind"], case["close"]), 0) + 1
    finally:
        d = os.path.join(driver.worker_scratch(), "c15src")
        tree.make_removable(d) if os.path.isdir(d) else None
        shutil.rmtree(d, ignore_errors=True)
    res["distinct_n"] = fired
    res["digest"] = digest_of([case["calls"], log])
    res["sample"] = {"calls": [(c["op"], c["name"]) for c in case["calls"]], "close": case["close"], "chain": gen.chain_family(case["chain"]),
                     "append": case["base"] is not None, "fault_runs": res["evals"], "faults": [[fi, f] for fi, f in faults[:6]]}
    return res


def pin(case, sub):
    c = copy.deepcopy(case)
    c["only"] = [list(sub)]
    return c


def shrink_candidates(case):
    if case.get("only") is None:
        for i in range(len(case["calls"]) - 1, -1, -1):
            if len(case["calls"]) > 1:
                c = copy.deepcopy(case)
                del c["calls"][i]
                yield c
    if case.get("base") is not None:
        c = copy.deepcopy(case)
        c["base"] = None
        yield c
    if case["chain"] != [{"id": "COPY"}]:
        c = copy.deepcopy(case)
        c["chain"] = [{"id": "COPY"}]
        yield c
    if case["header"] != "raw":
        c = copy.deepcopy(case)
        c["header"] = "raw"
        yield c
    if case["target"] != "stream":
        c = copy.deepcopy(case)
        c["target"] = "stream"
        yield c


def case_class(case):
    """Dependency flags (third-party codec libraries with listed defects), computed from the case, never from the failure."""
    chains = [case.get("chain")] + ([case["base"].get("chain")] if case.get("base") else [])
    return gen.dep_flags(chains, None, None)
