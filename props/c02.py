"""C02  Directory tree round trip with metadata (writeall -> extractall).  Engine wsim tree variant on the jailed real
filesystem (DESIGN.md 4, C02).  No schedule or fault appears in this property for single-folder archives: the simulator
owns the environment (filesystem, cwd, umask, knobs) and the model; the search is over inputs and configurations."""
import os
import shutil

from simkit import driver, fsjail, gen, tree
from simkit.prng import Rng
from simkit.seams import Seams, SimClock, SimRandom, digest_of, import_py7zr

PROPERTY = "C02"
ENGINE = "wsim(tree)+fsjail"
LEVEL = "exploration"
RULE = ("case = seeded tree in a scratch root (depth <= 5; empty and non-empty directories; files of 0..64 KiB; relative symlinks to files and "
        "directories, sideways and upward-but-inside; modes 0o400..0o777 / 0o500..0o777; mtimes 1970..2100 with sub-second parts) -> writeall (arcname "
        "None / given, path relative / absolute / '.', dereference off / on, default filters or a password) or pack_7zarchive -> extractall into an "
        "empty directory or unpack_7zarchive; the process cwd, umask, block size and chunk limit are seeded. Oracle: lstat/readlink/read_bytes walk "
        "of both trees: same relative paths and kinds, identical bytes, identical link targets, identical permission bits, |mtime difference| <= 5 us "
        "for files and directories; with dereference each link is replaced by its referent. The audit-hook jail is on during extraction. "
        "One evaluation = one round trip. distinct = (tree shape digest, arcname?, deref?, entry point, path form); non-trivial = tree has >= 1 directory and >= 1 file.")
ASSUMPTIONS = ["tmpfs semantics for modes/mtimes; the checks run as root (unreadable modes do not block reading)", "symlink mtimes are not compared (the property names files and directories)"]
COMPONENTS = {"real": ["py7zr writer/reader", "kernel tmpfs", "codec libraries"], "stub": ["cwd, umask, block/chunk knobs, clock, IV randomness"], "monitor": ["audit-hook jail around extraction"]}


def plan(tier):
    if tier == "thorough":
        return {"n": None, "budget_s": int(os.environ.get("VERIF_BUDGET_S", "900")), "case_timeout": 300}
    return {"n": 4000, "budget_s": 170, "case_timeout": 120}


def gen_case(rng: Rng, i: int, tier: str):
    r = rng.sub("k")
    deref = r.chance(0.3)
    import re

    for attempt in range(20):
        t = tree.gen_tree(r, maxdepth=5, nmax=14, name_style=r.pick([None, "ascii", "bmp", "astral"]), links=True, block=32768,
                          maxlen=65536 if r.chance(0.2) else 3000, deref_safe=deref, coincide=True)
        # write()/writeall() strip a leading drive prefix ('c:') from the archive name by design (see C16): a top-level
        # entry literally named 'c:x' is therefore outside what the round trip can promise when no arcname is given
        if not any(re.match("^[a-zA-Z]:", e["path"]) for e in t):
            break
    entry = r.wpick([(6, "writeall"), (2, "pack")])
    pathform = r.pick(["rel", "abs", "dot"]) if entry == "writeall" else "rel"
    arcname = None if (entry == "pack" or r.chance(0.5)) else "arc/" + gen.gen_component(r, "ascii")
    ra = rng.sub("arcroot")
    if entry == "writeall" and ra.chance(0.15):
        arcname = ra.pick(["", "", "."])  # the tree's content at the archive root
    if pathform == "dot":
        arcname = None if r.chance(0.7) else arcname
    return {"tree": t, "entry": entry, "pathform": pathform, "arcname": arcname, "deref": deref and entry == "writeall", "password": gen.gen_password(r) if r.chance(0.3) and entry == "writeall" else None,
            "umask": r.pick([0o022, 0o077, 0o000, 0o027, 0o177]), "cwd": r.pick(["parent", "elsewhere"]), "block": r.pick([4096, 32768, 1048576]), "chunk": r.pick([4096, 128000000]),
            "unpack": r.chance(0.3), "rng": r.randrange(1 << 30),
            # how the empty destination is named: absolute path argument, relative path argument, or no argument at all
            # from inside it
            "xdest": r.wpick([(3, "abs"), (2, "cwd"), (2, "rel")])}


def run_case(case):
    py7zr = import_py7zr()
    res = {"evals": 1, "violations": [], "faults": {}, "probes": {}, "rejected": {}, "classes": {}, "sigs": [], "extra": {}}
    scratch = os.path.join(driver.worker_scratch(), "c02")
    if os.path.isdir(scratch):
        tree.make_removable(scratch)
    shutil.rmtree(scratch, ignore_errors=True)
    srcparent = os.path.join(scratch, "work")
    src = os.path.join(srcparent, "src")
    dest = os.path.join(scratch, "moat", "dest")
    os.makedirs(srcparent)
    os.makedirs(dest)
    elsewhere = os.path.join(scratch, "elsewhere")
    os.makedirs(elsewhere)
    tree.build_tree(src, case["tree"])
    archive = os.path.join(scratch, "a.7z")
    cwd0 = os.getcwd()
    um0 = os.umask(case["umask"])
    cls = {"entry": case["entry"], "pathform": case["pathform"], "arcname": case["arcname"] is not None, "deref": case["deref"], "password": case["password"] is not None,
           "xdest": case.get("xdest", "abs")}

    def viol(oracle, site, detail, **extra):
        c = dict(cls)
        c.update(extra)
        res["violations"].append({"fp": {"oracle": oracle, "site": site, "class": c}, "detail": detail})

    try:
        with Seams(blocksize=case["block"], memlimit=case["chunk"], clock=SimClock(tick=0.001), rand=SimRandom(Rng(case["rng"], "iv"))):
            # ---- archive
            try:
                if case["entry"] == "pack":
                    os.chdir(srcparent)
                    py7zr.pack_7zarchive(os.path.join(scratch, "a"), "src")
                    prefix = "src"
                else:
                    if case["pathform"] == "dot":
                        os.chdir(src)
                        wpath, prefix = ".", ""
                    elif case["pathform"] == "rel":
                        os.chdir(srcparent)
                        wpath, prefix = "src", "src"
                    else:
                        os.chdir(srcparent if case["cwd"] == "parent" else elsewhere)
                        wpath, prefix = src, src.lstrip("/")
                    kw = {"dereference": case["deref"]}
                    if case["password"] is not None:
                        kw["password"] = case["password"]
                    with py7zr.SevenZipFile(archive, "w", **kw) as z:
                        if case["arcname"] is not None:
                            z.writeall(wpath, case["arcname"])
                            prefix = case["arcname"]
                        else:
                            z.writeall(wpath)
            except Exception as e:
                viol("archiving_failed", case["entry"], "archiving the tree raised %r" % e, error=type(e).__name__)
                return res
            # ---- extract
            os.chdir(elsewhere if case["cwd"] == "elsewhere" else srcparent)
            try:
                with fsjail.Jail(scratch, dest) as j:
                    xdest = case.get("xdest", "abs")
                    if xdest == "cwd":
                        os.chdir(dest)
                    elif xdest == "rel":
                        os.chdir(os.path.dirname(dest))
                    if case["unpack"] and case["password"] is None:
                        py7zr.unpack_7zarchive(archive, os.path.basename(dest) if xdest == "rel" else "." if xdest == "cwd" else dest)
                    else:
                        with py7zr.SevenZipFile(archive, "r", password=case["password"]) as z:
                            if xdest == "cwd":
                                z.extractall()
                            elif xdest == "rel":
                                z.extractall(path=os.path.basename(dest))
                            else:
                                z.extractall(path=dest)
            except Exception as e:
                viol("extraction_failed", "extractall", "extracting the archive of the tree raised %r" % e, error=type(e).__name__)
                return res
            if j.escapes or j.vetoed:
                viol("write_outside_destination", "extractall", "extraction touched %r outside the destination" % ((j.escapes + j.vetoed)[0],))
        got_root = os.path.join(dest, prefix) if prefix else dest
        want = tree.expected_snapshot(case["tree"], deref=case["deref"])
        try:
            got = tree.snapshot(got_root)
        except OSError as e:
            viol("tree_differs", "walk", "cannot walk the extracted tree: %r" % e)
            return res
        missing = sorted(set(want) - set(got))
        extra_ = sorted(set(got) - set(want))
        if missing or extra_:
            viol("tree_differs", "paths", "missing %r, unexpected %r" % (missing[:4], extra_[:4]), kind="missing" if missing else "extra")
        else:
            for rel in sorted(want):
                w, g = want[rel], got[rel]
                if w[0] != g[0]:
                    viol("tree_differs", "kind", "%r: source is a %s, extracted a %s" % (rel, w[0], g[0]))
                    break
                same = w[1] == g[1]
                if not same and w[0] == "link":
                    # link texts are compared as paths: './x', 'x/.' and 'x//y' name what 'x' and 'x/y' name on every system
                    # (py7zr stores the pathlib form); '..' components are NOT folded, that can change the referent
                    import pathlib

                    same = pathlib.PurePosixPath(w[1]) == pathlib.PurePosixPath(g[1])
                if not same:
                    viol("tree_differs", "content" if w[0] == "file" else "link_target", "%r: %s differs (%r vs %r)" % (rel, "bytes" if w[0] == "file" else "link target",
                                                                                                              len(w[1]) if w[0] == "file" else w[1], len(g[1]) if g[0] == "file" else g[1]))
                    break
                if w[0] != "link":
                    if w[2] != g[2]:
                        viol("metadata_differs", "mode", "%r (%s): mode %o, extracted %o" % (rel, w[0], w[2], g[2]), kind=w[0])
                        break
                    if abs(w[3] - g[3]) > 5000:
                        viol("metadata_differs", "mtime", "%r (%s): mtime %d ns, extracted %d ns (difference %d ns)" % (rel, w[0], w[3], g[3], g[3] - w[3]), kind=w[0])
                        break
        # the root directory entry itself (when it is a member): mode and mtime
        kinds = [e["kind"] for e in case["tree"]]
        shape = [kinds.count("dir"), kinds.count("file"), kinds.count("link"), sum(1 for e in case["tree"] if e["kind"] == "file" and e["content"]["len"] == 0),
                 max([e["path"].count("/") for e in case["tree"]] + [0])]
        res["sigs"].append(([shape, cls["arcname"], cls["deref"], case["entry"], case["pathform"], case["unpack"]], kinds.count("dir") >= 1 and kinds.count("file") >= 1))
        res["classes"]["%s|%s|deref=%s|dest=%s" % (case["entry"], case["pathform"], case["deref"], case.get("xdest", "abs"))] = 1
        res["probes"]["symlink_members"] = 1 if "link" in kinds else 0
        res["probes"]["dereferenced_links"] = 1 if case["deref"] and "link" in kinds else 0
        res["probes"]["empty_directories"] = 1 if any(e["kind"] == "dir" and not any(x["path"].startswith(e["path"] + "/") for x in case["tree"]) for e in case["tree"]) else 0
        res["digest"] = digest_of([sorted((k, v[0], v[1], v[2]) for k, v in want.items()), [v["detail"] for v in res["violations"]]])
        res["sample"] = {"tree": [(e["path"], e["kind"], e.get("target") or (e.get("content") or {}).get("len"), oct(e["mode"]) if "mode" in e else None) for e in case["tree"]][:10],
                         "entry": case["entry"], "pathform": case["pathform"], "arcname": case["arcname"], "deref": case["deref"], "umask": oct(case["umask"]), "cwd": case["cwd"]}
        return res
    finally:
        os.chdir(cwd0)
        os.umask(um0)
        tree.make_removable(scratch)
        shutil.rmtree(scratch, ignore_errors=True)


def shrink_candidates(case):
    import copy

    t = case["tree"]
    for i in range(len(t) - 1, -1, -1):
        e = t[i]
        if any(x["path"].startswith(e["path"] + "/") for x in t):
            continue
        # do not remove something a link points to
        c = copy.deepcopy(case)
        del c["tree"][i]
        ok = True
        import posixpath

        paths = {x["path"] for x in c["tree"]}
        for x in c["tree"]:
            if x["kind"] == "link":
                tgt = posixpath.normpath(posixpath.join(posixpath.dirname(x["path"]), x["target"]))
                if tgt not in paths and tgt not in ("", ".") and tgt in {y["path"] for y in t}:
                    ok = False
        if ok and c["tree"]:
            yield c
    for k, v in (("password", None), ("unpack", False), ("umask", 0o022), ("cwd", "parent"), ("block", 1048576), ("chunk", 128000000), ("xdest", "abs")):
        if case.get(k, v) != v:
            c = copy.deepcopy(case)
            c[k] = v
            yield c
    for i, e in enumerate(t):
        if e["kind"] == "file" and e["content"]["len"] > 0:
            c = copy.deepcopy(case)
            c["tree"][i]["content"]["len"] = 0
            yield c
