"""C05  Any input terminates in bounded time and memory; the interpreter survives.  Engine rsim in the sandbox pool
(DESIGN.md 4, C05): hostile inputs x call sequences, deterministic step budget, resident-growth budget, RLIMIT_AS cap,
death-by-signal detection, wall-clock backstop."""
import json
import os
import struct
import zlib

from props import hist, rsess
from simkit import gen, rw
from simkit.device import SimFS, SimRaw
from simkit.prng import Rng
from simkit.seams import REPO, Seams, digest_of, import_py7zr
from simkit.steps import MemBudgetExceeded, StepBudgetExceeded, StepCounter

import ref7z
from ref7z import mutate as M
from ref7z import writer as W

PROPERTY = "C05"
ENGINE = "rsim+sandbox"
LEVEL = "exploration"
RULE = ("case = hostile input (<= 64 KiB) derived from a seeded valid archive of any codec family or a shipped fixture by (a) truncation, bit flips, "
        "splices, (b) structure-aware mutation: the decoded header is tokenised into labelled fields, 1..3 fields are set to boundary values "
        "(0,1,2^k-1,2^k,2^32,2^63,2^64-1), sections dropped/duplicated/swapped, coder ids/properties perturbed, blobs resized, then ALL CRCs are "
        "re-sealed so that the parser is entered, (c) wrong or missing password; x seeded call sequence of length <= 6 over {open, getnames, list, test, "
        "testzip, extractall, extract, reset} including extract twice without reset. Oracle per call: returns or raises an ordinary exception within "
        "300000 + 60*len(input) + 4*declared_output steps (virtual CPU, KDF excluded), resident growth < 512 MiB, no MemoryError under the "
        "address-space cap, worker process survives; wall clock only as backstop. One evaluation = one call. "
        "distinct = (base archive, mutation list, call sequence); non-trivial = signature-header and next-header CRC checks passed (parser entered) "
        "or the input is a truncation/flip of the data area.")
ASSUMPTIONS = ["'allocates' is read as commits memory: a large request that is never touched and stays below the cap is not reported",
               "C-level hangs are outside the step counter; the pool's wall-clock watchdog is the (non-deterministic) backstop",
               "7zAES key derivation is bounded by py7zr's own cycles <= 24 assert and excluded from the step count"]
COMPONENTS = {"real": ["py7zr reader", "codec libraries", "allocator under RLIMIT_AS"], "stub": ["archive device", "thread scheduling (inline)"]}

FIXTURES = ["copy.7z", "deflate.7z", "lzma2_1.7z", "test_1.7z", "bzip2_2.7z", "ppmd.7z", "zstd.7z", "symlink.7z", "zerosize.7z", "test_folder.7z",
            "lzma_bcj_x86.7z", "solid.7z", "test_6.7z", "test_5.7z", "bugzilla_4.7z", "deflate64.7z", "p7zip-zstd.7z", "encrypted_1.7z",
            "lzma2delta_1.7z", "copy_bcj_1.7z", "empty.7z", "github_14.7z", "lzma_bcj2_1.7z", "lz4.7z", "zstdmt-brotli.7z", "filename_encryption.7z"]
FIXTURE_PW = {"encrypted_1.7z": "secret", "filename_encryption.7z": "hello"}


def plan(tier):
    cap = 12 << 30
    if tier == "thorough":
        return {"n": None, "budget_s": int(os.environ.get("VERIF_BUDGET_S", "900")), "case_timeout": 120, "workers": 8, "rlimit_as": cap}
    return {"n": 6000, "budget_s": 150, "case_timeout": 90, "workers": 8, "rlimit_as": cap}


CALLS = ["getnames", "list", "test", "testzip", "extractall_f", "extractall_p", "extract", "reset"]


def gen_case(rng: Rng, i: int, tier: str):
    r = rng.sub("k")
    if r.chance(0.25):
        base = {"fixture": r.pick(FIXTURES)}
    else:
        base = {"archive": rsess.gen_archive(rng.sub("arc"), tier, maxlen=400)}
    kind = r.wpick([(5, "structure"), (2, "truncate"), (2, "bitflip"), (1, "splice"), (1, "password"), (1, "garbage_header")])
    n = r.randint(1, 6)
    seq = []
    for _ in range(n):
        op = r.wpick([(2, "getnames"), (1, "list"), (2, "test"), (3, "testzip"), (3, "extractall_f"), (3, "extract"), (2, "reset")])
        seq.append({"op": op})
    rpth = rng.sub("pathop")
    if rpth.chance(0.2):
        # extraction onto the (jailed) scratch filesystem: the name handling of the directory path is code the factory path never runs
        seq.insert(rpth.randint(0, len(seq)), {"op": "extractall_p"})
    r2 = rng.sub("k2")
    if r2.chance(0.2):
        # a base written by the reference writer: the layouts py7zr's own writer never makes (pack-stream CRCs, gaps, folder
        # CRCs only, several folders per session, no SubStreamsInfo ...) reach parser and test() branches the others cannot
        from props import c06

        for attempt in range(10):
            c = c06.gen_case(rng.sub("ref%d" % attempt), 10 ** 6, tier)
            if "members" in c and c["members"]:
                for m in c["members"]:
                    if m.get("content") and m["content"].get("len", 0) > 400:
                        m["content"]["len"] = 400
                rn = rng.sub("respell")
                for m in c["members"]:
                    if rn.chance(0.25):
                        # legal but unusual spellings another writer may store: repeated './' markers, doubled separators
                        m["name"] = rn.pick(["././", "./", "./././", ".//"]) + m["name"].replace("/", rn.pick(["/", "//", "/./"]), 1)
                if len({m["name"] for m in c["members"]}) == len(c["members"]):
                    base = {"ref": {"members": c["members"], "layout": c["layout"]}}
                    break
    if r2.chance(0.012):
        # a decompression bomb that lies: a few KiB of packed zeros that expand to 160 MiB, in a header that declares 1000
        # bytes (or 1 MiB) of output.  Whatever py7zr does with it, it must not materialise what it was not asked for.
        base = {"bomb": {"chain": r2.pick([[{"id": "ZSTD"}], [{"id": "X86"}, {"id": "ZSTD"}], [{"id": "DEFLATE"}], [{"id": "ARM"}, {"id": "DEFLATE"}], [{"id": "BZIP2"}],
                                           [{"id": "PPC"}, {"id": "BZIP2"}], [{"id": "LZMA2"}], [{"id": "LZMA"}], [{"id": "X86"}, {"id": "LZMA"}], [{"id": "DELTA"}, {"id": "LZMA2"}]]),
                         "mib": 160, "declare": r2.pick([1000, 1000, 1 << 20])}}
        kind = "bomb"
        seq = [{"op": op} for op in r2.pick([["getnames", "extractall_f"], ["testzip"], ["extract", "reset", "testzip"], ["list", "test", "extractall_f", "reset", "extractall_f"]])]
        return {"base": base, "kind": kind, "mseed": r.randrange(1 << 30), "seq": seq, "open": r.pick(["stream", "path"]), "chunk": r.pick([4096, 128000000])}
    if r2.chance(0.01):
        # directed: a large, highly compressible header (1500 long directory names) packed into a few KiB, and an outer
        # EncodedHeader record rewritten to declare hundreds of folders over that one packed stream
        return {"base": {"bigheader": {"members": 1500, "namelen": 150}}, "kind": "many_header_folders", "mseed": r.randrange(1 << 30),
                "seq": [{"op": "getnames"}], "open": r.pick(["stream", "path"]), "chunk": 128000000, "folders": r2.pick([700, 1300])}
    if r2.chance(0.012):
        # directed: names declared "external" with a data index somewhere in the header itself - on the names record (which then
        # describes itself), on another record, at the first byte, at or past the end.  Hand-built: no writer emits this form.
        return {"base": {"handmade": "external_names"}, "kind": "external_names", "mseed": r.randrange(1 << 30),
                "seq": [{"op": op} for op in ["getnames", "list", "test", "testzip", "extractall_f"]][: r2.randint(1, 5)], "open": r.pick(["stream", "path", "anon"]),
                "chunk": 128000000, "nfiles": r2.pick([1, 1, 2, 3]), "pad": r2.pick([0, 0, 3, 40]), "where": r2.pick(["self", "self", "self", "emptystream", "start", "last", "beyond", "terminator"])}
    rmm = rng.sub("many_members")
    if rmm.chance(0.002):
        # directed: one solid folder of thousands of members behind a decoder that hands out its whole output at once (Brotli): what
        # the library does per member with the output it holds back must not grow with the amount held back.  The cost is memory
        # traffic, not interpreter steps: the wall-clock backstop of the pool (case_timeout) is what notices it.
        return {"base": {"manymembers": {"members": 6000, "len": 11000, "chain": [{"id": "BROTLI"}]}}, "kind": "many_members", "mseed": r.randrange(1 << 30),
                "seq": [{"op": op} for op in rmm.pick([["testzip", "reset", "extractall_f"], ["extractall_f", "reset", "testzip"], ["getnames", "testzip", "reset", "testzip"]])], "open": rmm.pick(["stream", "path"]),
                "chunk": 128000000}
    rcp = rng.sub("codec_props")
    if rcp.chance(0.01):
        # directed: a small archive whose coder properties declare the largest working memory the format can express (LZMA / LZMA2
        # dictionary, PPMd model) - or one just above what the data needs
        chain = rcp.pick([[{"id": "LZMA"}], [{"id": "LZMA2"}], [{"id": "PPMD", "order": 6, "mem": 16}], [{"id": "X86"}, {"id": "LZMA"}], [{"id": "DELTA"}, {"id": "LZMA2"}]])
        members = [{"name": "m%d.bin" % k, "kind": "file", "content": {"tex": "text", "len": 300 + 50 * k, "seed": rcp.randrange(1 << 30)}, "mtime": None, "ctime": None,
                    "atime": None, "attrs": None} for k in range(4)]
        # one solid folder, or four folders (four decoders, each with a dictionary of its own, alive in one session)
        folders = [{"members": [0, 1, 2, 3], "chain": chain}] if rcp.chance(0.5) else [{"members": [k], "chain": [dict(f) for f in chain]} for k in range(4)]
        layout = {"folders": folders, "crc": "substream", "header": "raw", "packcrc": False, "packpos": 0, "omit_nums": False, "dummy": 0,
                  "dummy_tail": 0, "emptyfile_vector_always": False, "names_first": True, "password": None, "iv_seed": 1, "no_substreams": False, "header_crc": True}
        return {"base": {"ref": {"members": members, "layout": layout}}, "kind": "codec_props", "mseed": r.randrange(1 << 30), "declare": rcp.pick(["max", "max", "4GiB-1", "1GiB", "1.5GiB"]),
                "seq": [{"op": op} for op in rcp.pick([["getnames", "extractall_f"], ["testzip"], ["list", "test", "extractall_f"]])], "open": rcp.pick(["stream", "path"]), "chunk": 128000000}
    if r2.chance(0.06):
        # the record that describes the packed header (kEncodedHeader StreamsInfo) is mutated like the header itself
        kind = "outer_structure"
    if r2.chance(0.03):
        # directed: the start header itself declares a next header (size / offset) far beyond the file, its CRC re-sealed
        kind = "sigheader"
    if r2.chance(0.15):
        # directed: declared quantities (sizes, positions, counts) far beyond the input, every reading call once
        kind = "sizes"
        seq = [{"op": op} for op in ["getnames", "test", "testzip", "extractall_f", "extract"]]
        r2.shuffle(seq)
        seq = seq[: r2.randint(2, 5)]
    return {"base": base, "kind": kind, "mseed": r.randrange(1 << 30), "seq": seq, "open": r.pick(["stream", "path", "anon"]),
            "chunk": r.pick([17, 4096, 128000000])}


def _base_chains(case):
    if "archive" in case["base"]:
        return [s.get("chain") for s in case["base"]["archive"]["sessions"]]
    if "ref" in case["base"]:
        return [[{"id": f["id"]} for f in fo["chain"]] for fo in case["base"]["ref"]["layout"]["folders"]]
    return []


_BOMBS = {}


def _bomb_image(spec):
    key = json.dumps(spec["chain"], sort_keys=True) + str(spec["mib"])
    if key not in _BOMBS:
        _BOMBS.clear()  # one at a time: the images are small, the cache only saves recompression within a run of equal specs
        data = bytes(spec["mib"] << 20)
        members = [{"name": "zeros.bin", "kind": "file", "data": data, "mtime": None, "ctime": None, "atime": None, "attrs": None}]
        _BOMBS[key] = W.build(members, {"folders": [{"members": [0], "chain": spec["chain"]}], "crc": "substream", "header": "raw"})
        del data, members
    return _BOMBS[key]


def _bigheader_image(spec):
    key = "bigheader%r" % sorted(spec.items())
    if key not in _BOMBS:
        _BOMBS.clear()
        members = [{"name": "d%04d/%s" % (k, "x" * spec["namelen"]), "kind": "dir", "data": None, "mtime": None, "ctime": None, "atime": None, "attrs": 0x10}
                   for k in range(spec["members"])]
        _BOMBS[key] = W.build(members, {"folders": [], "header": "lzma", "header_crc": True})
    return _BOMBS[key]


def _external_names_image(case):
    n = case["nfiles"]
    body = bytearray([0x01, 0x05, n])
    if case["pad"]:
        body += bytes([0x19, case["pad"]]) + bytes(case["pad"])  # kDummy
    at_empty = len(body)
    bits = bytes([(0xFF << (8 - n)) & 0xFF])
    body += bytes([0x0E, 0x01]) + bits + bytes([0x0F, 0x01]) + bits  # every member an empty file
    at_names = len(body)
    total = at_names + 4 + 2
    idx = {"self": at_names, "emptystream": at_empty, "start": 0, "last": total - 1, "beyond": total + 7, "terminator": total - 2}[case["where"]]
    body += bytes([0x11, 0x02, 0x01, idx & 0x7F]) + b"\x00\x00"
    header = bytes(body)
    start = struct.pack("<QQL", 0, len(header), zlib.crc32(header) & 0xFFFFFFFF)
    return b"7z\xbc\xaf\x27\x1c" + b"\x00\x04" + struct.pack("<L", zlib.crc32(start) & 0xFFFFFFFF) + start + header


def _manymembers_image(spec):
    key = "manymembers%r" % sorted((k, str(v)) for k, v in spec.items())
    if key not in _BOMBS:
        _BOMBS.clear()
        members = [{"name": "m%04d" % k, "kind": "file", "data": bytes(spec["len"]), "mtime": None, "ctime": None, "atime": None, "attrs": None} for k in range(spec["members"])]
        _BOMBS[key] = W.build(members, {"folders": [{"members": list(range(spec["members"])), "chain": spec["chain"]}], "crc": "substream", "header": "lzma"})
    return _BOMBS[key]


def _base_image(case):
    if "manymembers" in case["base"]:
        return _manymembers_image(case["base"]["manymembers"]), None, None
    if "handmade" in case["base"]:
        return _external_names_image(case), None, None
    if "bigheader" in case["base"]:
        return _bigheader_image(case["base"]["bigheader"]), None, None
    if "bomb" in case["base"]:
        return _bomb_image(case["base"]["bomb"]), None, None
    if "fixture" in case["base"]:
        fx = case["base"]["fixture"]
        with open(os.path.join(REPO, "tests", "data", fx), "rb") as f:
            return f.read(), FIXTURE_PW.get(fx), None
    b = rsess.build_from_ref(case["base"]["ref"]) if "ref" in case["base"] else rsess.build_archive(case["base"]["archive"])
    if b.rejected or b.error is not None or b.image is None:
        return None, None, None
    return b.image, b.password, b


def make_input(case):
    """Returns (input bytes, password to use, declared_output, description, parser_entered)."""
    img, pw, built = _base_image(case)
    if img is None:
        return None
    if len(img) > 65536:
        img = img[:65536]
    r = Rng(case["mseed"], "mut")
    declared = 0
    try:
        a = ref7z.read(img, pw, decode_data=False)
        if a.main and a.main["folders"]:
            declared = sum(ref7z.reader.folder_unpack_size(f) for f in a.main["folders"])
    except Exception:
        a = None
    kind = case["kind"]
    desc = []
    entered = False
    if kind == "structure" and a is not None and a.header_bytes:
        toks = M.tokenize(a.header_bytes)
        toks, desc = M.mutate(toks, r)
        raw = M.serialise(toks)
        data = W.reseal(img, raw, keep_upto=32 + (a.data_end or 0) if a.header_kind == "encoded" else None)
        entered = True
    elif kind == "codec_props" and a is not None and a.header_bytes:
        toks = M.tokenize(a.header_bytes)
        want = {"max": 0xFFFFFFFF, "4GiB-1": 0xFFFFFFFE, "1GiB": 1 << 30, "1.5GiB": 3 << 29}[case["declare"]]
        for k, t in enumerate(toks):
            if t.label == "props" and k >= 2:
                mid = bytes(toks[k - 2].val)
                pv = bytearray(t.val)
                if mid == b"\x03\x01\x01" and len(pv) >= 5:  # LZMA: lc/lp/pb byte, dictionary size
                    pv[1:5] = struct.pack("<I", want)
                elif mid == b"\x21" and len(pv) >= 1:  # LZMA2: one byte, 40 = 4 GiB - 1
                    pv[0] = {0xFFFFFFFF: 40, 0xFFFFFFFE: 40, 1 << 30: 38, 3 << 29: 39}[want]
                elif mid == b"\x03\x04\x01" and len(pv) >= 5:  # PPMd: order byte, model memory
                    pv[1:5] = struct.pack("<I", want)
                else:
                    continue
                t.val = bytes(pv)
                desc.append("coder %s declares %d bytes of working memory" % (mid.hex(), want))
        data = W.reseal(img, M.serialise(toks))
        entered = True
    elif kind == "many_members":
        data = img
        desc = ["%d members of %d bytes in one solid Brotli folder" % (case["base"]["manymembers"]["members"], case["base"]["manymembers"]["len"])]
        entered = True
    elif kind == "external_names":
        data = img
        desc = ["names external, data index on %s, %d members, %d bytes of padding" % (case["where"], case["nfiles"], case["pad"])]
        entered = True
    elif kind == "many_header_folders":
        nofs, nsize, _ = struct.unpack("<QQI", img[12:32])
        outer = img[32 + nofs: 32 + nofs + nsize]
        toks = M.tokenize(outer)
        U = [k for k, t in enumerate(toks) if t.section == "encoded/unpackinfo"]
        lab = [toks[k].label for k in U]
        try:
            b0, b1 = lab.index("numcoders"), lab.index("codersunpacksize_id")
            K = case["folders"]
            head = [toks[k].copy() for k in U[:b0]]
            for t in head:
                if t.label == "numfolders":
                    t.val = K
            body = [toks[k] for k in U[b0:b1]]
            size_tok = toks[U[lab.index("unpacksize")]]
            end_tok = toks[U[-1]]
            new_u = head + [t.copy() for _ in range(K) for t in body] + [toks[U[b1]].copy()] + [size_tok.copy() for _ in range(K)] + [end_tok.copy()]
            toks = toks[:U[0]] + new_u + toks[U[-1] + 1:]
            raw = M.serialise(toks)
            data = img[:32 + nofs] + raw
            import zlib as _z

            data = data[:12] + struct.pack("<QQI", nofs, len(raw), _z.crc32(raw) & 0xFFFFFFFF) + data[32:]
            data = data[:8] + struct.pack("<I", _z.crc32(data[12:32]) & 0xFFFFFFFF) + data[12:]
            desc = ["outer EncodedHeader record: %d folders declared over one packed header stream" % K]
            entered = True
        except (ValueError, IndexError):
            data = img
            desc = ["pristine (outer record not as expected)"]
    elif kind == "bomb" and a is not None and a.header_bytes:
        toks = M.tokenize(a.header_bytes)
        lie = case["base"]["bomb"]["declare"]
        for t in toks:
            if t.kind == "num" and t.label in ("unpacksize", "substreamsize"):
                t.val = lie
        declared = lie
        desc = ["%s expanding to %d MiB, every unpack size declared as %d" % ("+".join(f["id"] for f in case["base"]["bomb"]["chain"]), case["base"]["bomb"]["mib"], lie)]
        data = W.reseal(img, M.serialise(toks))
        entered = True
    elif kind == "sizes" and a is not None and a.header_bytes:
        toks = M.tokenize(a.header_bytes)
        if r.chance(0.35):
            # a count without its size list: drop a whole kSize record (id and entries), then inflate the counts
            lab = r.pick(["packsize", "packsize", "substreamsize"])
            idx = [k for k, t in enumerate(toks) if t.label == lab]
            if idx:
                lo, hi = idx[0], idx[-1] + 1
                if lo > 0 and toks[lo - 1].kind == "id":
                    lo -= 1
                del toks[lo:hi]
                desc.append("drop the %s record" % lab)
        cands = [k for k, t in enumerate(toks) if t.kind == "num" and t.label in ("packpos", "packsize", "unpacksize", "substreamsize", "numpackstreams",
                                                                                  "numfolders", "numunpackstream", "numfiles", "numcoders")]
        # pack sizes are what test() and the decoders count down: weight them up; after a dropped record, the counts
        cands += [k for k in cands if toks[k].label == "packsize"] * 3
        if desc:
            cands += [k for k in cands if toks[k].label in ("numpackstreams", "numunpackstream")] * 6
        for _ in range(r.randint(1, 2)):
            if not cands:
                break
            k = r.pick(cands)
            old = toks[k].val
            toks[k].val = r.pick([1 << 31, (1 << 32) - 1, 1 << 32, 1 << 40, (1 << 63) - 1, 1 << 63, (1 << 64) - 1, len(img) + r.randint(0, 3), len(img) * 2 + 1])
            desc.append("%s/%s %r->%r" % (toks[k].section, toks[k].label, old, toks[k].val))
        raw = M.serialise(toks)
        data = W.reseal(img, raw, keep_upto=32 + (a.data_end or 0) if a.header_kind == "encoded" else None)
        entered = True
    elif kind == "outer_structure" and len(img) >= 32:
        import zlib as _z

        nofs, nsize, _c = struct.unpack("<QQI", img[12:32])
        outer = img[32 + nofs: 32 + nofs + nsize]
        if outer[:1] == b"\x17":
            toks = M.tokenize(outer)
            if r.chance(0.5):
                # the packed-header size / unpack size / position, directed
                cands = [k for k, t in enumerate(toks) if t.kind == "num" and t.label in ("packsize", "unpacksize", "packpos", "numpackstreams", "numfolders")]
                if cands:
                    k = r.pick(cands)
                    old_v = toks[k].val
                    toks[k].val = r.pick([0, 1, max(old_v // 2, 1), old_v - 1, old_v + 1, (1 << 14) - 1, 1 << 32, 1 << 63])
                    desc = ["outer %s/%s %r->%r" % (toks[k].section, toks[k].label, old_v, toks[k].val)]
            else:
                toks, desc = M.mutate(toks, r)
                desc = ["outer " + x for x in desc]
            raw = M.serialise(toks)
            start = struct.pack("<QQI", nofs, len(raw), _z.crc32(raw) & 0xFFFFFFFF)
            data = img[:8] + struct.pack("<I", _z.crc32(start) & 0xFFFFFFFF) + start + img[32:32 + nofs] + raw
            entered = True
        else:
            data = img
            desc = ["pristine (header is not encoded)"]
    elif kind == "sigheader" and len(img) >= 32:
        import zlib as _z

        nofs, nsize, ncrc = struct.unpack("<QQI", img[12:32])
        which = r.pick(["size", "size", "offset", "both"])
        big = lambda: r.pick([1 << 30, (1 << 31) - 1, 1 << 31, 1 << 32, (1 << 32) + 5, 1 << 40, (1 << 63) - 1, 1 << 63, (1 << 64) - 1, len(img), len(img) * 3])
        if which in ("size", "both"):
            nsize = big()
        if which in ("offset", "both"):
            nofs = big()
        start = struct.pack("<QQI", nofs, nsize, ncrc)
        data = img[:8] + struct.pack("<I", _z.crc32(start) & 0xFFFFFFFF) + start + img[32:]
        desc = ["start header: next header offset %d size %d (file has %d bytes), start-header CRC re-sealed" % (nofs, nsize, len(img))]
        entered = True
    elif kind == "garbage_header" and a is not None:
        raw = bytes([1]) + r.bytes_(r.randint(0, 60))
        data = W.reseal(img, raw)
        desc = ["garbage header %d bytes" % len(raw)]
        entered = True
    elif kind == "truncate":
        cut = r.randrange(len(img)) if len(img) else 0
        data = img[:cut]
        desc = ["truncate@%d/%d" % (cut, len(img))]
        entered = cut > 32
    elif kind == "bitflip":
        d = bytearray(img)
        lo = 32
        hi = 32 + (a.sig["nofs"] if a is not None and a.sig["nofs"] > 0 else max(len(img) - 33, 1))
        for _ in range(r.randint(1, 4)):
            p = r.randrange(lo, max(lo + 1, min(hi, len(d))))
            if p < len(d):
                d[p] ^= 1 << r.randrange(8)
                desc.append("flip@%d" % p)
        data = bytes(d)
        entered = True
    elif kind == "splice":
        other, _, _ = _base_image({"base": {"fixture": r.pick(FIXTURES)}})
        k1 = r.randrange(len(img) + 1)
        k2 = r.randrange(len(other) + 1)
        data = (img[:k1] + other[k2:])[:65536]
        desc = ["splice %d+%d" % (k1, k2)]
        declared = 0
    elif kind == "password":
        data = img
        pw = r.pick([None, "wrong", (pw or "x")[:-1], (pw or "x").upper(), ""])
        desc = ["password %r" % pw]
        entered = True
    else:
        data = img
        desc = ["pristine"]
        entered = True
    return data, pw, declared, desc, entered


def run_case(case):
    py7zr = import_py7zr()
    res = {"evals": 0, "violations": [], "faults": {}, "probes": {}, "rejected": {}, "classes": {}, "sigs": [], "sim_steps": 0, "extra": {}}
    made = make_input(case)
    if made is None:
        res["extra"]["base_skipped"] = 1
        res["digest"] = digest_of(["skipped"])
        return res
    data, pw, declared, desc, entered = made
    res["faults"][case["kind"]] = 1
    budget = 300000 + 60 * len(data) + 4 * min(declared, 64 << 20)
    cls = {"kind": case["kind"], "open": case["open"]}
    base_chains = _base_chains(case)
    cls.update(gen.dep_flags(base_chains, None, None))

    def viol(oracle, site, detail, **extra):
        c = dict(cls)
        c.update(extra)
        res["violations"].append({"fp": {"oracle": oracle, "site": site, "class": c}, "detail": detail})

    fs = SimFS()
    fs.add(rsess.READ_PATH, data)
    log = []
    prev = []
    # peak resident growth allowed per call: 512 MiB in general; for the lying bomb (1000 bytes / 1 MiB declared, dictionaries of
    # at most 8 MiB) everything beyond 96 MiB can only be output nobody asked for
    mem_limit_kb = (96 << 10) if case["kind"] == "bomb" else (512 << 10)
    with Seams(fs=fs, memlimit=case["chunk"], inline_threads=True):
        z = None

        def guarded(name, fn):
            res["evals"] += 1
            peak0 = _vm_peak_kb()
            rss0 = _reset_hwm_kb()
            try:
                with StepCounter(budget, mem_budget_bytes=512 << 20) as sc:
                    try:
                        try:
                            out = fn()
                        finally:
                            # transient peaks inside one C call are invisible to the sampled RSS: the kernel's high-water
                            # mark, reset before the call, is not
                            grown_kb = _hwm_kb() - rss0 if rss0 else 0
                            res["extra"]["max_peak_rss_growth_kib"] = max(res["extra"].get("max_peak_rss_growth_kib", 0), grown_kb)
                            if grown_kb > mem_limit_kb:
                                raise MemBudgetExceeded(sc.steps)
                        log.append((name, "ok"))
                        return True, out
                    except MemoryError as e:
                        grown = _vm_peak_kb() - peak0
                        if grown < (1 << 20):
                            # the address space did not grow by even 1 GiB: a codec library refused a parameter (e.g. pyppmd
                            # raises MemoryError for a model size of 0) - an ordinary exception, not an allocation blow-up
                            log.append((name, "MemoryError(spurious)"))
                            res["extra"]["memoryerror_without_growth"] = res["extra"].get("memoryerror_without_growth", 0) + 1
                            return False, e
                        dm = declared_codec_memory(data, pw)
                        viol("memory_error_under_cap", name, "%s after %r on input (%s): MemoryError (largest coder memory declared in the properties: %d bytes)" % (
                            name, prev, "; ".join(desc), dm), codec_memory_declared=dm >= (1 << 30))
                        log.append((name, "MemoryError"))
                        return False, None
                    except Exception as e:
                        log.append((name, type(e).__name__))
                        return False, e
                    finally:
                        res["sim_steps"] += sc.steps
            except StepBudgetExceeded as sbe:
                viol("spins", name, "%s after %r exceeded %d steps at %s on a %d-byte input (%s)" % (name, prev, budget, sbe.args[1] if len(sbe.args) > 1 else "?", len(data), "; ".join(desc)),
                     after_decoding_without_reset=_no_reset(prev, name))
                log.append((name, "SPIN"))
                return None, None
            except MemBudgetExceeded:
                dm = declared_codec_memory(data, pw)
                viol("memory_blowup", name, "%s after %r: resident memory grew by more than %d MiB on a %d-byte input (%s; largest coder memory declared: %d)" % (
                    name, prev, mem_limit_kb >> 10, len(data), "; ".join(desc), dm), codec_memory_declared=dm >= (1 << 30))
                log.append((name, "MEM"))
                return None, None

        target = rsess.READ_PATH if case["open"] == "path" else SimRaw(fs.get(rsess.READ_PATH), readable=True, anonymous=case["open"] == "anon")
        ok, z = guarded("open", lambda: py7zr.SevenZipFile(target, "r", password=pw))
        if ok:
            names = []
            # the output the (possibly mutated) header declares, as py7zr itself lists it: the budget is proportional to it
            try:
                declared_now = sum(max(0, int(f.uncompressed or 0)) for f in z.files)
            except Exception:
                declared_now = 0
            bomb = declared_now > (64 << 20)
            budget = 300000 + 60 * len(data) + 4 * min(max(declared, declared_now), 64 << 20)
            if bomb:
                res["extra"]["declared_output_over_64MiB_decoding_skipped"] = 1
            for call in case["seq"]:
                op = call["op"]
                if bomb and op in ("testzip", "extractall_f", "extractall_p", "extract"):
                    continue
                if op == "getnames":
                    fn = z.getnames
                elif op == "list":
                    fn = z.list
                elif op == "test":
                    fn = z.test
                elif op == "testzip":
                    fn = z.testzip
                elif op == "reset":
                    fn = z.reset
                elif op == "extractall_f":
                    fn = lambda: z.extractall(factory=_null_factory())
                elif op == "extractall_p":
                    fn = lambda: _extract_to_scratch(z)
                else:
                    try:
                        names = z.getnames()
                    except Exception:
                        names = []
                    tg = names[:1] + names[-1:] if names else ["x"]
                    fn = lambda: z.extract(targets=tg, factory=_null_factory())
                st, _ = guarded(op, fn)
                prev.append(op)
                if st is None:
                    break
            try:
                z.close()
            except Exception:
                pass
    kinds = [c["op"] for c in case["seq"]]
    res["sigs"].append(([case["base"].get("fixture", digest_of(case["base"])[:10]), desc, kinds, case["open"]], bool(entered)))
    res["classes"][case["kind"]] = 1
    res["probes"]["parser_entered_after_reseal"] = 1 if (case["kind"] in ("structure", "garbage_header") and log and log[0][1] != "Bad7zFile") else 0
    res["probes"]["opened_then_called"] = 1 if ok else 0
    res["digest"] = digest_of([data, log])
    res["sample"] = {"base": case["base"].get("fixture", "generated archive"), "kind": case["kind"], "mutations": desc, "input_bytes": len(data),
                     "sequence": ["open"] + kinds, "outcomes": [l[1] for l in log]}
    return res


def _status_kb(field):
    try:
        with open("/proc/self/status") as f:
            for line in f:
                if line.startswith(field):
                    return int(line.split()[1])
    except OSError:
        pass
    return 0


def _reset_hwm_kb():
    """Reset the kernel's peak-RSS high-water mark of this process and return the current RSS in KiB (0 if unsupported)."""
    try:
        with open("/proc/self/clear_refs", "w") as f:
            f.write("5")
    except OSError:
        return 0
    return _status_kb("VmRSS:")


def _hwm_kb():
    return _status_kb("VmHWM:")


def _vm_peak_kb():
    try:
        with open("/proc/self/status") as f:
            for line in f:
                if line.startswith("VmPeak:"):
                    return int(line.split()[1])
    except OSError:
        pass
    return 0


def declared_codec_memory(data, pw):
    """Largest working memory any coder of the input declares in its properties (LZMA/LZMA2 dictionary, PPMd model)."""
    import struct as _s

    best = 0
    try:
        a = ref7z.read(data, pw, decode_data=False)
        folders = a.main["folders"] if a.main and a.main["folders"] else []
    except Exception:
        return 0
    from ref7z import codecs as RC

    for f in folders:
        for c in f["coders"]:
            p = c["props"] or b""
            try:
                if c["id"] == RC.M_LZMA and len(p) >= 5:
                    best = max(best, _s.unpack("<I", p[1:5])[0])
                elif c["id"] == RC.M_LZMA2 and len(p) >= 1:
                    b = p[0]
                    best = max(best, 0xFFFFFFFF if b >= 40 else (2 | (b & 1)) << (b // 2 + 11))
                elif c["id"] == RC.M_PPMD and len(p) >= 5:
                    best = max(best, _s.unpack("<I", p[1:5])[0])
            except Exception:
                pass
    return best


def _extract_to_scratch(z):
    """extractall(path=...) into a fresh directory of the worker's scratch area, under the audit-hook jail: whatever a hostile
    archive tries, nothing outside the scratch root is touched."""
    import shutil

    from simkit import driver, fsjail, tree

    root = driver.worker_scratch()
    out = os.path.join(root, "c05-out")
    if os.path.isdir(out):
        tree.make_removable(out)
    shutil.rmtree(out, ignore_errors=True)
    os.makedirs(out)
    try:
        with fsjail.Jail(root, out):
            z.extractall(path=out)
    finally:
        tree.make_removable(out)
        shutil.rmtree(out, ignore_errors=True)


def _null_factory():
    """Counts and discards: the harness must not be the one that accumulates a declared-but-bogus output."""
    from py7zr.io import NullIOFactory

    return NullIOFactory()


def _no_reset(prev, name):
    dec = ("extractall_f", "extractall_p", "extract", "testzip")
    if name not in dec:
        return False
    for p in reversed(prev):
        if p == "reset":
            return False
        if p in dec:
            return True
    return False


def shrink_candidates(case):
    import copy

    for i in range(len(case["seq"]) - 1, -1, -1):
        c = copy.deepcopy(case)
        del c["seq"][i]
        yield c
    if case["open"] != "stream":
        c = copy.deepcopy(case)
        c["open"] = "stream"
        yield c
    if case["chunk"] != 128000000:
        c = copy.deepcopy(case)
        c["chunk"] = 128000000
        yield c


def case_class(case):
    base_chains = _base_chains(case)
    d = {"kind": case["kind"]}
    d.update(gen.dep_flags(base_chains, None, None))
    return d
