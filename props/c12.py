"""C12  Read sessions are repeatable and never modify the archive.  Engine rsim, the history machine (DESIGN.md 4, C12)."""
import hashlib
import os
import shutil

from props import rsess
from simkit import driver, gen, rw
from simkit.prng import Rng
from simkit.seams import digest_of
from simkit.steps import StepBudgetExceeded, StepCounter

PROPERTY = "C12"
ENGINE = "rsim"
LEVEL = "exploration"
RULE = ("case = seeded archive (1..3 write sessions: single/multi-folder, plain/encrypted, with directories, symlinks, empty files) + seeded call "
        "sequence of length <= 5 (thorough <= 8) over {getnames, list, getinfo, archiveinfo, test, testzip, extractall(factory), extractall(path), "
        "extract(T), reset, needs_password} generated under the property's side condition (reset before an extract/extractall that follows a decoding "
        "call; test/testzip anywhere), opened by path (worker threads under the inline schedule) or from a stream, ended by close(), context exit or an "
        "exception thrown by the harness factory mid-extraction. Every call is step-budgeted and compared with the model's prediction for a fresh "
        "archive (and with the same call on a second, freshly opened session for fields the model does not predict); the device trace must hold no "
        "write and the image digest must be unchanged. One evaluation = one call. distinct = (archive class, op-kind sequence, ending, open kind); "
        "non-trivial = sequence with >= 2 decoding/verdict calls.")
ASSUMPTIONS = ["the archive under test is valid per the reference reader (otherwise the case is skipped)", "worker threads run under the degenerate 'run to completion at start()' schedule here; C13 explores the others"]
COMPONENTS = {"real": ["py7zr reader", "CPython buffered I/O", "tmpfs for extraction to a directory", "codec libraries"],
              "stub": ["archive device (SimRaw, write-detecting)", "thread scheduling (inline)", "knobs"]}


def plan(tier):
    if tier == "thorough":
        return {"n": None, "budget_s": int(os.environ.get("VERIF_BUDGET_S", "900")), "case_timeout": 300}
    return {"n": 1500, "budget_s": 170, "case_timeout": 60}


def gen_case(rng: Rng, i: int, tier: str):
    r = rng.sub("seq")
    arc = rsess.gen_archive(rng.sub("arc"), tier)
    # the sequence generator needs member names: derive them from the recipe without building
    names = _recipe_names(arc)
    model_stub = [rw.Mem(n, b"", "file", None, None) for n in names]
    seq = rsess.gen_sequence(r, model_stub, maxlen=8 if tier == "thorough" else 5)
    rl = rng.sub("long")
    if names and rl.chance(0.012):
        # "any number of times within one session": one long walk over the members, reset() before every extract(),
        # well beyond any internal queue or counter that a handful of calls never fills
        seq = []
        for k in range(rl.pick([520, 600])):
            seq.append({"op": "reset"})
            seq.append({"op": "extract", "targets": [names[k % len(names)]], "recursive": False, "as": "list", "sink": "factory"})
    rr = rng.sub("ref")
    if rr.chance(0.2):
        # an archive of the reference writer (data away from offset 0, packed-stream CRCs, folder-level CRCs, several folders per
        # "session"): the session state that calls leave behind is computed from fields py7zr's own archives keep at zero
        from props import c06

        for attempt in range(10):
            c = c06.gen_case(rng.sub("ref%d" % attempt), 10 ** 6, tier)
            if "members" not in c or not c["members"] or any(m["kind"] == "symlink" for m in c["members"]):
                continue
            if not all(rsess._fs_safe_name(m["name"]) and "\\" not in m["name"] for m in c["members"]) or not rsess._names_ok([m["name"] for m in c["members"]]):
                continue
            c["layout"]["packpos"] = rr.pick([1, 7, 64, 96, c["layout"].get("packpos", 0)])
            c["layout"]["packcrc"] = rr.chance(0.6)
            stub = [rw.Mem(m["name"], b"", "file", None, None) for m in c["members"]]
            seq2 = rsess.gen_sequence(rr, stub, maxlen=8 if tier == "thorough" else 5)
            return {"ref": {"members": c["members"], "layout": c["layout"]}, "seq": seq2, "open": rr.pick(["path", "stream", "anon"]),
                    "end": rr.wpick([(3, "close"), (2, "ctx"), (2, "exception")]),
                    "read": {"block": rr.pick([16, 4096, 32768, 1048576]), "chunk": rr.pick([17, 4096, 128000000]), "bufsize": rr.pick([16, 512, 8192])},
                    "exc_at": rr.randint(0, 3)}
    case = {"archive": arc, "seq": seq, "open": r.pick(["path", "stream", "anon"]), "end": r.wpick([(3, "close"), (2, "ctx"), (2, "exception")]),
            "read": {"block": r.pick([16, 4096, 32768, 1048576]), "chunk": r.pick([17, 4096, 128000000]), "bufsize": r.pick([16, 512, 8192])},
            "exc_at": r.randint(0, 3)}
    rd = rng.sub("damage")
    if rd.chance(0.15):
        # "the integrity verdicts are right at any point of a session": one flipped bit in the packed data, and verdict calls mixed
        # with listing calls, resets and an extraction that is allowed to fail
        ops = ["testzip"] + [rd.wpick([(4, "testzip"), (2, "test"), (3, "reset"), (1, "getnames"), (1, "list"), (2, "extractall_f"), (1, "needs_password")])
                             for _ in range(rd.randint(1, 4))]
        rd.shuffle(ops)
        case["seq"] = [{"op": o} for o in ops]
        case["damage"] = {"at": rd.random(), "bit": rd.randint(0, 7)}
        case["end"] = rd.pick(["close", "ctx"])
    return case


def _recipe_names(arc):
    from simkit import tree

    names = []
    for s in arc["sessions"]:
        for op in s["ops"]:
            if op["op"] == "writeall":
                names += [n for n, _, _ in tree.writeall_order(op["tree"], op["name"])]
            else:
                names.append(op["name"])
    return names


class _Boom(Exception):
    pass


def run_case(case):
    res = {"evals": 0, "violations": [], "faults": {}, "probes": {}, "rejected": {}, "classes": {}, "sigs": [], "sim_steps": 0, "extra": {}}
    built = rsess.build_from_ref(case["ref"]) if "ref" in case else rsess.build_archive(case["archive"])
    if built.rejected or built.error is not None or built.image is None:
        res["extra"]["archive_skipped"] = 1
        res["digest"] = digest_of(["skipped", repr(built.error)[:80]])
        return res
    scratch = os.path.join(driver.worker_scratch(), "c12")
    shutil.rmtree(scratch, ignore_errors=True)
    os.makedirs(scratch)
    outdir = os.path.join(scratch, "out")
    cls = {"open": case["open"], "multi": built.nfolders > 1, "encrypted": built.password is not None}
    cls.update(case_class(case))
    if "ref" in case:
        cls["source"] = "ref7z"
    before = hashlib.sha256(built.image).hexdigest()
    log = []

    def viol(oracle, site, detail, **extra):
        c = dict(cls)
        c.update(extra)
        res["violations"].append({"fp": {"oracle": oracle, "site": site, "class": c}, "detail": detail})

    total = sum(len(m.data) for m in built.model if m.kind != "dir")
    budget = rw.read_budget(len(built.image), total)
    if case.get("damage"):
        try:
            return _run_damaged(case, built, res, viol, budget, scratch)
        finally:
            shutil.rmtree(scratch, ignore_errors=True)
    try:
        try:
            sess = rsess.Session(built, case["open"], case["read"], mirror_dir=scratch)
        except Exception as e:
            viol("open_failed", "open", "valid archive does not open: %r" % e, error=type(e).__name__)
            return res
        prev = []
        aborted = False
        try:
            for ci, call in enumerate(case["seq"]):
                op = call["op"]
                res["evals"] += 1
                try:
                    with StepCounter(budget) as sc:
                        got = rsess.do_call(sess, call, outdir)
                    res["sim_steps"] += sc.steps
                except StepBudgetExceeded:
                    viol("call_never_returns", op, "call %d %s after %r exceeded %d steps" % (ci, op, prev, budget), after_decoding=any(p in rsess.DECODING for p in prev))
                    aborted = True
                    break
                except Exception as e:
                    viol("call_raised", op, "call %d %s after %r raised %r on a valid archive" % (ci, op, prev, e), error=type(e).__name__,
                         after_decoding=any(p in rsess.DECODING for p in prev))
                    log.append((op, "raised", type(e).__name__))
                    aborted = True
                    break
                want = rsess.predict(call, built)
                why = rsess.compare(call, got, want, built)
                if why is None and op in ("list", "archiveinfo", "test"):
                    # fields the model has no opinion on: same call on a freshly opened session over an identical image
                    fresh = rsess.Session(built, case["open"], case["read"], mirror_dir=os.path.join(scratch, "fresh") if _mk(os.path.join(scratch, "fresh")) else None)
                    try:
                        ref_got = rsess.do_call(fresh, call, outdir)
                    finally:
                        fresh.finish()
                    if ref_got != got:
                        why = "%s differs from a freshly opened archive: %s vs %s" % (op, rsess._short(got), rsess._short(ref_got))
                if why is not None:
                    viol("result_differs_from_fresh", op, "call %d after %r: %s" % (ci, prev, why), after_decoding=any(p in rsess.DECODING for p in prev),
                         after_reset="reset" in prev)
                log.append((op, got if op not in ("extractall_p",) else sorted(got[1])))
                prev.append(op)
            # ---- ending
            if case["end"] == "exception" and not aborted:
                class BoomFactory(type(rw.make_factory())):
                    def __init__(self, at):
                        super().__init__()
                        self.at = at
                        self.n = 0

                    def create(self, filename):
                        self.n += 1
                        if self.n > self.at:
                            raise _Boom("harness exception in factory")
                        return super().create(filename)

                try:
                    sess.z.reset()
                    sess.z.extractall(factory=BoomFactory(case["exc_at"]))
                except _Boom:
                    res["faults"]["exception_mid_extraction"] = 1
                except Exception as e:
                    res["extra"]["other_exception_at_end"] = 1
            try:
                sess.finish("ctx" if case["end"] == "ctx" else "close")
            except Exception as e:
                viol("close_raised", "close", "close() after %r raised %r" % (prev, e), error=type(e).__name__)
        except BaseException:
            sess.abandon()
            raise
        writes = sess.device_writes()
        after = hashlib.sha256(sess.image()).hexdigest()
        if writes or after != before:
            viol("archive_modified", "device", "read-mode session issued %d write/truncate operations; image digest %s" % (len(writes), "changed" if after != before else "unchanged"))
        kinds = [c["op"] for c in case["seq"]]
        nver = sum(1 for k in kinds if k in rsess.DECODING or k == "test")
        res["sigs"].append(([cls["open"], cls["multi"], cls["encrypted"], kinds, case["end"]], nver >= 2))
        res["classes"]["|".join(kinds[:3])] = 1
        res["probes"]["multi_folder_archive"] = 1 if built.nfolders > 1 else 0
        res["probes"]["decode_after_decode_without_reset(testzip)"] = 1 if any(k == "testzip" and any(p in rsess.DECODING for p in kinds[:i]) for i, k in enumerate(kinds)) else 0
        res["digest"] = digest_of([before, log])
        res["sample"] = {"sequence": [c if c["op"] != "extract" else {"op": "extract", "targets": c["targets"], "recursive": c["recursive"], "sink": c["sink"]} for c in case["seq"]],
                         "open": case["open"], "end": case["end"], "folders": built.nfolders, "members": len(built.model), "encrypted": built.password is not None}
        return res
    finally:
        from simkit import tree as _t

        _t.make_removable(scratch)
        shutil.rmtree(scratch, ignore_errors=True)


def _run_damaged(case, built, res, viol, budget, scratch):
    """One bit of the packed data flipped.  Truth: a fresh session on a stream, sequential code path, same knobs, extracting everything -
    if that fails or delivers other bytes than were archived (or the reference reader decodes other bytes), the archive IS
    damaged, and then testzip() must say so (a member name, or an exception) wherever it stands in the session."""
    import copy

    from ref7z import reader as R

    ref = built.ref
    end = (ref.data_end or 0) if ref is not None else 0
    if end <= 0 or case_class(case).get("uses_pyppmd"):
        res["extra"]["damage_skipped"] = 1
        res["digest"] = digest_of(["damage-skipped"])
        return res
    off = 32 + min(end - 1, int(case["damage"]["at"] * end))
    img = bytearray(built.image)
    img[off] ^= 1 << case["damage"]["bit"]
    dbuilt = copy.copy(built)
    dbuilt.image = bytes(img)
    model = {m.name: m.data for m in built.model if m.kind != "dir"}
    damaged = False
    try:
        # same read knobs as the session under test: a decoder fed in small blocks may have delivered every member byte
        # before it reaches a damaged end-of-stream marker, and then "nothing wrong" is the right verdict
        fresh = rsess.Session(dbuilt, "stream", case["read"])
    except Exception:
        res["extra"]["damage_skipped"] = 1
        res["digest"] = digest_of(["damage-skipped-open"])
        return res
    try:
        with StepCounter(budget):
            got = rsess.do_call(fresh, {"op": "extractall_f"}, None)
        if got[1] != model:
            damaged = True
    except (StepBudgetExceeded, MemoryError):
        raise
    except Exception:
        damaged = True
    finally:
        try:
            fresh.finish()
        except Exception:
            pass
    try:
        b = R.read(dbuilt.image, built.password)
        if not b.undecoded and {m.name: m.data for m in b.members if m.kind != "dir"} != model:
            damaged = True
    except Exception:
        pass
    res["probes"]["damaged_archive_sessions"] = 1 if damaged else 0
    before = hashlib.sha256(dbuilt.image).hexdigest()
    log = []
    try:
        sess = rsess.Session(dbuilt, case["open"], case["read"], mirror_dir=scratch)
    except Exception as e:
        res["digest"] = digest_of(["damaged-open-failed", type(e).__name__])
        return res
    prev = []
    try:
        for ci, call in enumerate(case["seq"]):
            op = call["op"]
            res["evals"] += 1
            try:
                with StepCounter(budget):
                    got = rsess.do_call(sess, call, None)
            except StepBudgetExceeded:
                viol("call_never_returns", op, "damaged archive: call %d %s after %r exceeded %d steps" % (ci, op, prev, budget), damaged=True)
                break
            except Exception as e:
                log.append((op, "raised", type(e).__name__))
                prev.append(op)
                continue
            if op == "testzip" and damaged and got[1] is None:
                viol("damaged_archive_certified", "testzip", "byte %d of the packed data has bit %d flipped and a fresh extraction %s; testzip() as call %d after %r returned None"
                     % (off - 32, case["damage"]["bit"], "fails or delivers other bytes", ci, prev), damaged=True, after_reset="reset" in prev,
                     after_decoding=any(p in rsess.DECODING for p in prev))
            if op == "testzip" and got[1] is not None and got[1] not in [m.name for m in built.model]:
                viol("damaged_archive_verdict_names_no_member", "testzip", "testzip() returned %r, not a member" % (got[1],), damaged=True)
            log.append((op, got if op != "extractall_f" else sorted(got[1])))
            prev.append(op)
        try:
            sess.finish("ctx" if case["end"] == "ctx" else "close")
        except Exception as e:
            log.append(("close", type(e).__name__))
    except BaseException:
        sess.abandon()
        raise
    writes = sess.device_writes()
    if writes or hashlib.sha256(sess.image()).hexdigest() != before:
        viol("archive_modified", "device", "read-mode session on a damaged archive issued %d write/truncate operations" % len(writes), damaged=True)
    kinds = [c["op"] for c in case["seq"]]
    res["sigs"].append((["damaged", case["open"], built.nfolders > 1, kinds, damaged], damaged))
    res["faults"]["bit_flip_in_packed_data"] = 1
    res["digest"] = digest_of([before, log])
    return res


def _mk(d):
    os.makedirs(d, exist_ok=True)
    return True


def shrink_candidates(case):
    import copy

    for i in range(len(case["seq"]) - 1, -1, -1):
        c = copy.deepcopy(case)
        del c["seq"][i]
        yield c
    arc = case.get("archive") or {"sessions": []}
    if len(arc["sessions"]) > 1:
        c = copy.deepcopy(case)
        c["archive"]["sessions"].pop()
        yield c
    for si, s in enumerate(arc["sessions"]):
        for i in range(len(s["ops"]) - 1, -1, -1):
            c = copy.deepcopy(case)
            del c["archive"]["sessions"][si]["ops"][i]
            yield c
    if case["end"] != "close":
        c = copy.deepcopy(case)
        c["end"] = "close"
        yield c
    if case["open"] != "stream":
        c = copy.deepcopy(case)
        c["open"] = "stream"
        yield c
    for k, v in (("block", 1048576), ("chunk", 128000000)):
        if case["read"][k] != v:
            c = copy.deepcopy(case)
            c["read"][k] = v
            yield c


def case_class(case):
    if "ref" in case:
        return gen.dep_flags([[{"id": f["id"]} for f in fo["chain"]] for fo in case["ref"]["layout"]["folders"]], case["read"]["chunk"], case["read"]["block"])
    return gen.dep_flags([s.get("chain") for s in case["archive"]["sessions"]], case["read"]["chunk"], case["read"]["block"])
