"""C10  Listings tell the truth about the archive.  Per-operation oracle in rsim (DESIGN.md 4, C10)."""
import os
import shutil

from props import hist, rsess
from simkit import driver, gen, rw
from simkit.prng import Rng
from simkit.seams import REPO, digest_of

import ref7z

PROPERTY = "C10"
ENGINE = "rsim"
LEVEL = "exploration"
RULE = ("case = seeded archive (py7zr-written histories: every chain family, encrypted or not, single/multi-folder, with directories, symlinks, "
        "zero-length files; or a third-party fixture with the member map taken from the reference reader), opened by path or stream; "
        "every listing interface is called on a fresh session and compared with the model and with the extraction result of the SAME session: "
        "equal name sequences in getnames/namelist/list/files, uncompressed == len(bytes), crc32 == CRC32(bytes) when reported, is_directory matches "
        "what extraction creates, getinfo(name) and getinfo(name + '/') find every listed name and raise KeyError otherwise, archiveinfo() total size, "
        "block count, solid flag and method names agree with the reference reader's parse, needs_password() <=> AES coder present or password supplied. "
        "One evaluation = one archive. distinct = (archive class, chain families, #members class); non-trivial = archive has >= 2 members.")
ASSUMPTIONS = ["ref7z parse is the truth for folder count, solid flag and coder ids"]
COMPONENTS = {"real": ["py7zr reader", "codec libraries", "scratch mirror file for os.stat in archiveinfo()"], "stub": ["archive device", "thread scheduling (inline)"]}


def plan(tier):
    if tier == "thorough":
        return {"n": None, "budget_s": int(os.environ.get("VERIF_BUDGET_S", "900")), "case_timeout": 300}
    return {"n": 1500, "budget_s": 170, "case_timeout": 120}


def gen_case(rng: Rng, i: int, tier: str):
    r = rng.sub("k")
    if r.chance(0.15):
        fx, pw = r.pick(hist.DECODABLE_FIXTURE_BASES + [(f, None) for f in hist.UNDECODABLE_BASES] + [("lzma2bcj2.7z", None)])
        return {"fixture": fx, "open": r.pick(["path", "stream", "anon"]), "supply_password": True}
    if rng.sub("src").chance(0.3):
        # an archive of the independent reference writer: members without attributes or times, empty files next to
        # directories, several folders, folders without streams - what 7-Zip may write and py7zr's own writer never does
        from props import c06

        c = c06.gen_case(rng.sub("ref"), 10 ** 6, tier)
        if "members" in c:
            rs = rng.sub("respell")
            if c["members"] and rs.chance(0.3):
                # a stored name in a legal but not path-normal spelling, as another tool may write it: it is listed as stored
                # and getinfo must find it under exactly that spelling
                m = rs.pick(c["members"])
                nm = m["name"]
                forms = ["./" + nm]
                if "/" in nm:
                    forms += [nm.replace("/", "//", 1), nm.replace("/", "/./", 1)]
                new = rs.pick(forms)
                if new not in [x["name"] for x in c["members"]]:
                    m["name"] = new
            return {"ref": {"members": c["members"], "layout": c["layout"]}, "open": r.pick(["path", "stream", "anon"]), "supply_password": True}
    arc = rsess.gen_archive(rng.sub("arc"), tier)
    rs = rng.sub("spurious")
    if rs.chance(0.25):
        # a password supplied although nothing in the archive is encrypted - the empty string included
        return {"archive": arc, "open": r.pick(["path", "stream", "anon"]), "supply_password": True, "spurious_password": rs.pick(["", "", "x", "secret"])}
    return {"archive": arc, "open": r.pick(["path", "stream", "anon"]), "supply_password": r.chance(0.6)}


def _built_from_fixture(fx):
    b = rsess.Built()
    b.rejected = False
    b.error = None
    with open(os.path.join(REPO, "tests", "data", fx), "rb") as f:
        b.image = f.read()
    b.password = dict(hist.DECODABLE_FIXTURE_BASES).get(fx)
    b.ref = ref7z.read(b.image, b.password)
    b.model = [rw.Mem(m.name, m.data, m.kind, m.mtime, m.attributes) for m in b.ref.members]
    b.nfolders = len(b.ref.main["folders"]) if b.ref.main and b.ref.main["folders"] else 0
    return b


def _listing_only(case, built, res):
    scratch = os.path.join(driver.worker_scratch(), "c10")
    shutil.rmtree(scratch, ignore_errors=True)
    os.makedirs(scratch)
    cls = {"open": case["open"], "src": "fixture", "empty": False, "undecodable": True}
    try:
        sess = rsess.Session(built, case["open"], {}, mirror_dir=scratch, password=None)
        try:
            names = [m.name for m in built.ref.members]
            got = sess.z.getnames()
            if got != names or [f.filename for f in sess.z.list()] != names:
                res["violations"].append({"fp": {"oracle": "listing_untrue", "site": "getnames", "class": cls}, "detail": "names %r, the archive stores %r" % (got[:5], names[:5])})
            sizes = [m.size if m.kind != "dir" else 0 for m in built.ref.members]
            if [f.uncompressed for f in sess.z.list()] != sizes:
                res["violations"].append({"fp": {"oracle": "listing_untrue", "site": "list.uncompressed", "class": cls}, "detail": "sizes listed differ from the stored ones"})
            if not sess.anonymous:
                a = sess.z.archiveinfo()
                nf = len(built.ref.main["folders"])
                solid = any(n > 1 for n in built.ref.main["substreams"]["nums"]) if built.ref.main.get("substreams") else False
                if a.blocks != nf:
                    res["violations"].append({"fp": {"oracle": "summary_untrue", "site": "archiveinfo.blocks", "class": cls}, "detail": "blocks %r, the archive has %d folders" % (a.blocks, nf)})
                if bool(a.solid) != bool(solid):
                    res["violations"].append({"fp": {"oracle": "summary_untrue", "site": "archiveinfo.solid", "class": cls}, "detail": "solid %r, stream counts say %r" % (a.solid, solid)})
                if a.uncompressed != sum(sizes):
                    res["violations"].append({"fp": {"oracle": "summary_untrue", "site": "archiveinfo.uncompressed", "class": cls}, "detail": "total %r, members sum to %d" % (a.uncompressed, sum(sizes))})
        finally:
            sess.finish()
    except Exception as e:
        res["violations"].append({"fp": {"oracle": "open_failed", "site": "open", "class": cls}, "detail": "listing a valid archive raised %r" % e})
    finally:
        shutil.rmtree(scratch, ignore_errors=True)
    res["sigs"].append((["fixture-listing-only", case["fixture"], case["open"]], True))
    res["probes"]["listing_of_undecodable_archive"] = 1
    res["digest"] = digest_of([case["fixture"], [v["detail"] for v in res["violations"]]])
    return res


def run_case(case):
    res = {"evals": 1, "violations": [], "faults": {}, "probes": {}, "rejected": {}, "classes": {}, "sigs": [], "extra": {}}
    if "fixture" in case:
        built = _built_from_fixture(case["fixture"])
        src = "fixture"
        if built.ref.undecoded and not any(m.name is None for m in built.ref.members):
            # folders nobody here can decode (BCJ2): the listing and the summary need no decoding and are still checked
            return _listing_only(case, built, res)
        if built.ref.undecoded or any(m.name is None for m in built.ref.members):
            res["extra"]["archive_skipped"] = 1
            res["digest"] = digest_of(["skipped"])
            return res
    elif "ref" in case:
        built = rsess.build_from_ref(case["ref"])
        src = "ref7z"
        if built.error is not None or built.image is None:
            res["extra"]["archive_skipped"] = 1
            res["digest"] = digest_of(["skipped"])
            return res
    else:
        built = rsess.build_archive(case["archive"])
        src = "py7zr"
        if built.rejected or built.error is not None or built.image is None:
            res["extra"]["archive_skipped"] = 1
            res["digest"] = digest_of(["skipped"])
            return res
    scratch = os.path.join(driver.worker_scratch(), "c10")
    shutil.rmtree(scratch, ignore_errors=True)
    os.makedirs(scratch)
    cls = {"open": case["open"], "src": src, "empty": len(built.model) == 0}

    def viol(oracle, site, detail, **extra):
        c = dict(cls)
        c.update(extra)
        res["violations"].append({"fp": {"oracle": oracle, "site": site, "class": c}, "detail": detail})

    nopw = False
    if not case.get("supply_password", True) and built.password is not None and built.ref is not None and built.ref.header_coders is not None \
            and not any(rsess.RC.M_AES in hc for hc in built.ref.header_coders):
        # header readable without the key: the listing interfaces must work and needs_password() must say so
        nopw = True
        built.opened_without_password = True
    cls["without_password"] = nopw
    try:
        pw_arg = None if nopw else "__model__"
        if case.get("spurious_password") is not None and built.password is None:
            pw_arg = case["spurious_password"]
            built.spurious_password = pw_arg
        cls["spurious_password"] = getattr(built, "spurious_password", None) is not None
        try:
            sess = rsess.Session(built, case["open"], {}, mirror_dir=scratch, password=pw_arg)
        except Exception as e:
            viol("open_failed", "open", "valid archive does not open: %r" % e, error=type(e).__name__)
            return res
        try:
            try:
                probs = rsess.listing_truth(sess, built)
            except Exception as e:
                probs = [("listing_raised", "a listing call raised %r" % e)]
            for site, text in probs:
                viol("listing_untrue", site, text)
            for site, text in rsess.archive_summary_truth(sess, built):
                viol("summary_untrue", site, text)
            # same-session extraction agrees with what was listed
            try:
                if nopw:
                    raise RuntimeError("no extraction without the password")
                fac = rw.make_factory()
                sess.z.extractall(factory=fac)
                got = fac.result()
                listed = {f.filename: f for f in sess.z.list()}
                for n, d in got.items():
                    f = listed.get(n)
                    if f is not None and f.uncompressed != len(d):
                        viol("listing_untrue", "list.uncompressed", "%r listed with %r bytes, extraction delivered %d" % (n, f.uncompressed, len(d)))
                        break
            except Exception as e:
                res["extra"]["extract_failed_in_c10"] = 1
        finally:
            try:
                sess.finish()
            except Exception:
                pass
        fams = sorted({gen.chain_family(s.get("chain")) for s in case["archive"]["sessions"]}) if "archive" in case else (
            [case["fixture"]] if "fixture" in case else sorted({"+".join(f["id"] for f in fo["chain"]) for fo in case["ref"]["layout"]["folders"]}))
        res["sigs"].append(([src, fams, min(len(built.model), 4), built.nfolders > 1, built.password is not None, case["open"]], len(built.model) >= 2))
        res["probes"]["encrypted_archive"] = 1 if built.password is not None else 0
        res["probes"]["archive_without_members"] = 1 if not built.model else 0
        res["digest"] = digest_of([built.image, [v["detail"] for v in res["violations"]]])
        res["sample"] = {"source": case.get("fixture", "reference writer" if "ref" in case else "py7zr history"), "chains": fams, "members": [(m.name, m.kind) for m in built.model][:8], "folders": built.nfolders, "open": case["open"]}
        return res
    finally:
        shutil.rmtree(scratch, ignore_errors=True)


def shrink_candidates(case):
    import copy

    if "archive" not in case:
        return
    arc = case["archive"]
    if len(arc["sessions"]) > 1:
        c = copy.deepcopy(case)
        c["archive"]["sessions"].pop()
        yield c
    for si, s in enumerate(arc["sessions"]):
        for i in range(len(s["ops"]) - 1, -1, -1):
            c = copy.deepcopy(case)
            del c["archive"]["sessions"][si]["ops"][i]
            yield c
        if s.get("chain") != [{"id": "COPY"}] and not gen.chain_has_aes(s.get("chain")):
            c = copy.deepcopy(case)
            c["archive"]["sessions"][si]["chain"] = [{"id": "COPY"}]
            yield c
