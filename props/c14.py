"""C14  A crash while writing never leaves a file that opens with wrong contents.
Engine wsim + crash-image enumeration (DESIGN.md 4, C14).  Level: fault_enumeration - for every sampled
create/append session the crash points of its recorded write stream are enumerated exhaustively at byte
granularity (+ 'a predecessor of the last write was lost' variants)."""
import json
from simkit import gen, rw
from simkit.device import SimFS, crash_images, write_ops
from simkit.prng import Rng
from simkit.seams import Seams, SimClock, SimRandom, digest_of
from simkit.steps import StepBudgetExceeded, StepCounter

import ref7z

PROPERTY = "C14"
ENGINE = "wsim+crash"
LEVEL = "fault_enumeration"
RULE = ("case = seeded history (0..2 fault-free base sessions, then one create/append session under test) on a simulated device "
        "(path under CPython's real BufferedRandom with a seeded buffer size / unbuffered stream / caller-owned buffered object), "
        "seeded chain, header mode, password, block size; the session's device write trace is cut at EVERY byte prefix and, in addition, "
        "with one of the two predecessors of the last write lost; each image is opened with py7zr (step-budgeted) and with ref7z. "
        "One evaluation = one crash image. distinct = (session digest, crash label); non-trivial = crash point strictly inside the write stream.")
ASSUMPTIONS = [
    "a crash leaves a prefix of the device-level write stream (optionally with one of the last writes missing); sector tearing inside a single byte is not modelled",
    "ref7z (independent reader) and the codec libraries are trusted",
    "an image on which py7zr exceeds the step budget is re-read with 20 x the budget; only then it counts as a hang (open_never_returns)",
]
COMPONENTS = {"real": ["py7zr SevenZipFile writer and reader", "CPython io.BufferedRandom", "codec libraries"],
              "stub": ["raw device (SimRaw)", "clock", "AES IV randomness", "block-size knob"]}


def plan(tier):
    if tier == "thorough":
        return {"n": None, "budget_s": int(__import__("os").environ.get("VERIF_BUDGET_S", "900")), "case_timeout": 300}
    return {"n": 320, "budget_s": 150, "case_timeout": 120}


def _hijack_case(rng: Rng, tier: str):
    """Directed history: an append (Copy coder) whose first member's bytes are a copy of the base archive's packed header
    stream with one byte changed.  The new data lands exactly on the old packed header; at the crash point right behind
    it the old signature header and header descriptor are intact, so only an integrity check of the *unpacked* header
    stands between the torn file and a successful open with another member name."""
    r = rng.sub("hijack")
    knobs = {"block": 1048576, "chunk": 128000000, "bufsize": r.pick([512, 8192])}
    names = []
    for k in range(r.randint(2, 4)):
        names.append("".join(chr(r.randrange(0x400, 0x9FFF)) for _ in range(r.randint(12, 30))))
    base = {"mode": "w", "chain": [{"id": "COPY"}], "password": None, "header": "enc", "header_via": "ctor",
            "ops": [{"op": "writestr", "name": n, "content": {"tex": "rand", "len": r.randint(1, 40), "seed": r.randrange(1 << 30)}, "as": "bytes"} for n in names]}
    seed = r.randrange(1 << 30)
    fs = SimFS(buffer_size=knobs["bufsize"])
    try:
        with Seams(fs=fs, blocksize=knobs["block"], memlimit=knobs["chunk"], clock=SimClock(tick=0.001), rand=SimRandom(Rng(seed, "iv"))):
            rw.run_write_session(fs, base, "stream", knobs["bufsize"])
        img = fs.get(rw.SIM_PATH).snapshot()
        a = ref7z.read(img)
        if not a.header_packs:
            return None
        if rng.sub("crc0").chance(0.5):
            # the unpacked header's CRC32 made exactly 0 by choosing the last two characters of the last name: a stored
            # checksum that is falsy
            import zlib

            H = a.header_bytes
            enc = names[-1].encode("utf-16-le")
            p = H.rfind(enc)
            fixed = None
            for attempt in range(40):
                if p < 0:
                    break
                H2 = gen.patch_crc32(H, p + len(enc) - 4, 0)
                u1, u2 = int.from_bytes(H2[p + len(enc) - 4:p + len(enc) - 2], "little"), int.from_bytes(H2[p + len(enc) - 2:p + len(enc)], "little")
                if all(0x20 < u < 0xD800 or 0xE000 <= u < 0xFFFE for u in (u1, u2)) and 0x2F not in (u1, u2) and 0x5C not in (u1, u2):
                    fixed = names[-1][:-2] + chr(u1) + chr(u2)
                    break
                # re-roll an earlier character of the name and try again
                nm = names[-1]
                names[-1] = nm[:3] + chr(r.randrange(0x400, 0x9FFF)) + nm[4:]
                H = H[:p] + names[-1].encode("utf-16-le") + H[p + len(enc):]
                enc = names[-1].encode("utf-16-le")
            if fixed is not None:
                names[-1] = fixed
                base["ops"][-1]["name"] = fixed
                fs = SimFS(buffer_size=knobs["bufsize"])
                with Seams(fs=fs, blocksize=knobs["block"], memlimit=knobs["chunk"], clock=SimClock(tick=0.001), rand=SimRandom(Rng(seed, "iv"))):
                    rw.run_write_session(fs, base, "stream", knobs["bufsize"])
                img = fs.get(rw.SIM_PATH).snapshot()
                a = ref7z.read(img)
                if not a.header_packs or zlib.crc32(a.header_bytes) != 0:
                    return None
        lo, hi = a.header_packs[-1]
        packed = bytearray(img[32 + lo:32 + hi])
        if len(packed) < 16:
            return None
        if packed[0] == 0x01 and r.chance(0.5):
            # LZMA2 uncompressed chunk: any payload byte may change and it still decodes
            off = r.randrange(8, len(packed) - 2)
            packed[off] ^= 1 << r.randrange(8)
        else:
            # the packed header of ANOTHER archive of the same shape (other names of the same lengths) whose packed
            # stream happens to have the same length: it decodes, under the old descriptor, to a well-formed header
            found = None
            for attempt in range(40):
                names_b = ["".join(chr(r.randrange(0x400, 0x9FFF)) for _ in range(len(n))) for n in names]
                base_b = json.loads(json.dumps(base))
                for op, nb in zip(base_b["ops"], names_b):
                    op["name"] = nb
                fsb = SimFS(buffer_size=knobs["bufsize"])
                with Seams(fs=fsb, blocksize=knobs["block"], memlimit=knobs["chunk"], clock=SimClock(tick=0.001), rand=SimRandom(Rng(seed, "iv"))):
                    rw.run_write_session(fsb, base_b, "stream", knobs["bufsize"])
                imgb = fsb.get(rw.SIM_PATH).snapshot()
                ab = ref7z.read(imgb)
                if ab.header_packs and (ab.header_packs[-1][1] - ab.header_packs[-1][0]) == len(packed) and len(ab.header_bytes) == len(a.header_bytes):
                    lob, hib = ab.header_packs[-1]
                    found = bytearray(imgb[32 + lob:32 + hib])
                    break
            if found is None or found == packed:
                return None
            packed = found
    except Exception:
        return None
    sess = {"mode": "a", "chain": [{"id": "COPY"}], "password": None, "header": r.pick(["enc", "raw"]), "header_via": "ctor",
            "ops": [{"op": "writestr", "name": "appended-" + gen.gen_component(r, "ascii"), "content": {"hex": bytes(packed).hex(), "len": len(packed), "tex": "hex", "seed": 0}, "as": "bytes"}]}
    import zlib as _z

    return {"base": [base], "session": sess, "target": "stream", "knobs": knobs, "rng": seed,
            "directed": "hijack-packed-header" + ("+header-crc32-is-0" if _z.crc32(a.header_bytes) == 0 else "")}


def gen_case(rng: Rng, i: int, tier: str):
    if rng.sub("kind").chance(0.12):
        c = _hijack_case(rng, tier)
        if c is not None:
            return c
    knobs = gen.gen_knobs(rng.sub("knobs"))
    r = rng.sub("ops")
    password = gen.gen_password(r) if r.chance(0.3) else None
    nbase = r.wpick([(4, 0), (4, 1), (2, 2)])
    maxlen = 1500 if tier == "quick" else 4000
    used = []
    base = []
    for k in range(nbase):
        s = rw.gen_session(r, "w" if k == 0 else "a", knobs, used, nmax=3, maxlen=maxlen, password=password)
        used += rw.session_names(s)
        base.append(s)
    mode = "a" if nbase else r.pick(["w", "w", "x", "a"])
    sess = rw.gen_session(r, mode, knobs, used, nmax=3, maxlen=maxlen, password=password)
    rt = rng.sub("torn")
    if base and sess["ops"] and rt.chance(0.3):
        # directed: the appended data starts with an incompressible member (stored by LZMA2 as an uncompressed chunk) and lands
        # on a packed header: a few bytes into the first write the old header descriptor points at a stream that decodes
        # neither to an end nor to an error by itself
        base[-1]["header"] = "enc"
        sess["chain"] = rt.pick([None, None, [{"id": "LZMA2", "preset": 1}], [{"id": "COPY"}]])
        sess["ops"][0]["content"] = {"tex": "rand", "len": rt.randint(150, 500), "seed": rt.randrange(1 << 30)}
    return {"base": base, "session": sess, "target": r.wpick([(3, "path"), (3, "stream"), (2, "bufobj")]), "knobs": knobs,
            "rng": r.randrange(1 << 30)}


def _members_equal(names, products, model):
    if names != [n for n, _ in model]:
        return False
    return products == {n: d for n, d in model}


def run_case(case):
    knobs = case["knobs"]
    fs = SimFS(buffer_size=knobs["bufsize"])
    clock = SimClock(tick=0.001)
    rand = SimRandom(Rng(case["rng"], "iv"))
    res = {"evals": 0, "violations": [], "faults": {}, "probes": {}, "rejected": {}, "sim_steps": 0, "classes": {}, "extra": {}}
    model = []
    password = case["session"].get("password")
    with Seams(fs=fs, blocksize=knobs["block"], memlimit=knobs["chunk"], clock=clock, rand=rand):
        try:
            for s in case["base"]:
                add, err = rw.run_write_session(fs, s, case["target"], knobs["bufsize"])
                if err is not None:
                    # a fault-free base session failed: not this property's business (C01/C08 report it)
                    res["extra"]["base_session_raised"] = 1
                    res["digest"] = digest_of(["base_raised", repr(err)[:80]])
                    return res
                model += rw.pairs(add)
            before_model = list(model)
            sf = fs.files.get(rw.SIM_PATH)
            before_img = sf.snapshot() if sf is not None else b""
            t0 = len(sf.trace) if sf is not None else 0
            added, sess_err = rw.run_write_session(fs, case["session"], case["target"], knobs["bufsize"])
        except rw.Rejected as e:
            res["rejected"][gen.chain_family(case["session"].get("chain"))] = 1
            res["digest"] = digest_of(["rejected", str(e)[:80]])
            return res
    sf = fs.get(rw.SIM_PATH)
    after_model = before_model + rw.pairs(added)
    ops = write_ops(sf.trace[t0:])
    if case["session"]["mode"] in ("w", "x"):
        before_img = b""
        accept = [after_model]
    else:
        accept = [before_model, after_model]
    if sess_err is not None:
        # the session itself raised (reported by C01/C08/C15, not here): every state it leaves behind is still a
        # crash state, and the only complete member list it may show is the one from before the session
        res["extra"]["session_raised"] = 1
        accept = [before_model] if case["session"]["mode"] == "a" and case["base"] else []
    total = sum(len(p) for k, o, p in ops if k == "w")
    final = sf.snapshot()
    only = case.get("only")
    log = []
    n_inside = 0
    for label, img in crash_images(before_img, ops):
        if only is not None and list(label) not in only:
            continue
        res["evals"] += 1
        kind = label[2]
        res["faults"]["crash_" + kind] = res["faults"].get("crash_" + kind, 0) + 1
        inside = kind != "prefix" or not (img == before_img or img == final)
        if inside:
            n_inside += 1
        # --- py7zr
        budget = 30000 + 40 * len(img) + 2 * sum(len(d) for _, d in after_model)
        outcome = None
        try:
            with StepCounter(budget) as sc:
                r = rw.read_image(img, password=password, kind="stream")
            res["sim_steps"] += sc.steps
            if r.error is not None:
                outcome = "error"
            elif any(_members_equal(r.names, r.products, m) for m in accept):
                outcome = "ok"
                res["extra"]["max_steps_ok_read_permille_of_budget"] = max(res["extra"].get("max_steps_ok_read_permille_of_budget", 0), sc.steps * 1000 // budget)
                res["probes"]["accepted_complete_state"] = res["probes"].get("accepted_complete_state", 0) + 1
            else:
                outcome = "WRONG"
                res["violations"].append({
                    "fp": {"oracle": "accepted_wrong_contents", "site": "py7zr", "class": {"mode": case["session"]["mode"], "variant": kind}},
                    "detail": "crash image %r (%d bytes) opens with names %r; expected an error or one of %r" % (
                        label, len(img), r.names, [[n for n, _ in m] for m in accept]),
                    "sub": list(label)})
        except StepBudgetExceeded:
            # neither an error nor a member list: confirmed with twenty times the budget before it is called a hang
            res["sim_steps"] += budget
            try:
                with StepCounter(20 * budget) as sc2:
                    rw.read_image(img, password=password, kind="stream")
                res["sim_steps"] += sc2.steps
                outcome = "slow"
                res["extra"]["slow_reads_over_budget"] = res["extra"].get("slow_reads_over_budget", 0) + 1
            except StepBudgetExceeded as sbe:
                outcome = "spin"
                res["sim_steps"] += 20 * budget
                res["violations"].append({
                    "fp": {"oracle": "open_never_returns", "site": "py7zr", "class": {"mode": case["session"]["mode"], "variant": kind}},
                    "detail": "crash image %r (%d bytes): opening it neither fails nor lists members within %d steps (20 x the budget), last at %s" % (
                        label, len(img), 20 * budget, sbe.args[1] if len(sbe.args) > 1 else "?"),
                    "sub": list(label)})
                log.append((label, outcome, None))
                break  # one confirmed hang per case is enough; every further image would cost 20 budgets again
        # --- reference reader
        ro = None
        try:
            a = ref7z.read(img, password)
            if ref7z.enforced_issues(a) or a.undecoded:
                ro = "error"
            else:
                got = [(m.name, m.data) for m in a.members]
                if any(got == m for m in accept):
                    ro = "ok"
                else:
                    ro = "WRONG"
                    res["violations"].append({
                        "fp": {"oracle": "accepted_wrong_contents", "site": "ref7z", "class": {"mode": case["session"]["mode"], "variant": kind}},
                        "detail": "crash image %r is a well-formed archive for the reference reader with members %r" % (label, [n for n, _ in got]),
                        "sub": list(label)})
        except (ref7z.FormatError, ref7z.CodecError, ref7z.NeedPassword, ref7z.Unsupported):
            ro = "error"
        log.append((label, outcome, ro))
    # the completed session must have been observed as a correct state
    res["probes"].setdefault("accepted_complete_state", 0)
    res["extra"].setdefault("slow_reads_over_budget", 0)
    res["probes"]["directed_header_hijack"] = 1 if case.get("directed") else 0
    res["probes"]["header_with_crc32_zero"] = 1 if "crc32-is-0" in str(case.get("directed")) else 0
    res["distinct_n"] = n_inside
    res["digest"] = digest_of([final, log])
    cls = "%s|%s|%s" % (case["session"]["mode"], case["target"], case["session"]["header"])
    res["classes"][cls] = 1
    res["sample"] = {"target": case["target"], "mode": case["session"]["mode"], "chain": gen.chain_family(case["session"]["chain"]),
                     "header": case["session"]["header"], "members": [op["name"] for op in case["session"]["ops"]],
                     "base_sessions": len(case["base"]), "device_writes": [(k, o, len(p) if p else 0) for k, o, p in ops],
                     "crash_images": res["evals"], "bytes_written": total}
    return res


def shrink_candidates(case):
    import copy

    # 1. pin the failing crash label is done by the caller through 'only'; here: structural simplifications
    if case["base"]:
        c = copy.deepcopy(case)
        c["base"].pop()
        if not c["base"] and c["session"]["mode"] == "a":
            pass
        yield c
    for i in range(len(case["session"]["ops"])):
        c = copy.deepcopy(case)
        del c["session"]["ops"][i]
        yield c
    for which in ["session"]:
        s = case[which]
        if s.get("chain") != [{"id": "COPY"}] and not gen.chain_has_aes(s.get("chain")):
            c = copy.deepcopy(case)
            c[which]["chain"] = [{"id": "COPY"}]
            yield c
        if s.get("header") != "raw":
            c = copy.deepcopy(case)
            c[which]["header"] = "raw"
            yield c
    for i, op in enumerate(case["session"]["ops"]):
        if op["content"].get("len", 0) > 1:
            c = copy.deepcopy(case)
            c["session"]["ops"][i]["content"]["len"] //= 2
            c["session"]["ops"][i].pop("offset", None)
            yield c
    if case["target"] != "stream":
        c = copy.deepcopy(case)
        c["target"] = "stream"
        yield c


def pin(case, sub):
    import copy

    c = copy.deepcopy(case)
    c["only"] = [list(sub)]
    return c
