"""C04  Damage is detected: no success with different content.  Engine rsim + storage corruption (DESIGN.md 4, C04).
Level fault_enumeration: for every sampled pristine archive ALL single-bit flips and ALL truncation lengths are applied
(plus sampled overwrites, bursts, insert/delete, extension, block swaps)."""
import os
import zlib

from props import rsess
from simkit import gen, rw
from simkit.device import SimFS, SimRaw
from simkit.prng import Rng
from simkit.seams import Seams, digest_of, import_py7zr
from simkit.steps import StepBudgetExceeded, StepCounter

PROPERTY = "C04"
ENGINE = "rsim+corruption"
LEVEL = "fault_enumeration"
PIN_FIRST = True  # a violation is one damaged image: pin it instead of re-enumerating while shrinking
RULE = ("case = seeded small pristine archive A (4 of 5 py7zr-written, 1 of 5 written by the reference writer with per-file or per-folder CRCs in a C06 layout: every codec family, with/without AES, raw/encoded/encrypted header, 1..4 folders, "
        "150..2500 bytes) with its exact member map; faults at rest: EVERY single-bit flip at every bit position and EVERY truncation length "
        "(exhaustive per archive), plus seeded byte overwrites, bursts <= 32 bits, insert/delete of 1..8 bytes, extension by garbage and block swaps "
        "inside the packed area. Each damaged image D is driven through open+getnames+extractall(factory), open+testzip and open+test (step-budgeted): "
        "any exception = detected; success => every delivered (name, bytes) is in the model with identical bytes; testzip() is None / test() is True "
        "on a D whose extraction fails or delivers wrong bytes = certified a bad archive; on the intact A the verdicts must be 'no damage'. "
        "One evaluation = one damaged image. distinct = (archive digest, fault kind, position); non-trivial = D differs from A.")
ASSUMPTIONS = ["hangs on damaged input are C05's (counted as handed over, not reported here)", "delivering fewer members than the model is allowed by the statement"]
COMPONENTS = {"real": ["py7zr reader", "codec libraries"], "stub": ["archive device holding the damaged image", "thread scheduling (inline)"]}


def plan(tier):
    if tier == "thorough":
        return {"n": None, "budget_s": int(os.environ.get("VERIF_BUDGET_S", "900")), "case_timeout": 600}
    return {"n": 40, "budget_s": 150, "case_timeout": 300}


def gen_case(rng: Rng, i: int, tier: str):
    r = rng.sub("k")
    if i % 5 == 4:
        # archive produced by the reference writer, with per-file CRCs (the layouts py7zr's own writer never makes)
        from props import c06

        for attempt in range(20):
            c = c06.gen_case(rng.sub("ref%d" % attempt), 10 ** 6, tier)
            if "fixture" in c or not c["members"]:
                continue
            c["layout"]["crc"] = "folder" if i % 10 == 9 else "substream"  # per-member CRCs, or only one per folder
            c["layout"]["header_crc"] = True
            for m in c["members"]:
                if m.get("content") and m["content"].get("len", 0) > 150:
                    m["content"]["len"] = 150
            if any(m["kind"] == "symlink" for m in c["members"]):
                continue
            if i % 10 == 4 and c["layout"]["folders"] and c["layout"].get("password") is None:
                # directed: one CRC per folder, a decoder that can deliver its last byte before the last input block is read
                # (Deflate, BZip2, ZStandard end-of-stream bits), and the archive read in 16-byte blocks
                c["layout"]["crc"] = "folder"
                # (a folder with a single stream lends its CRC to that member: all data goes into one solid folder)
                every = [k for fo in c["layout"]["folders"] for k in fo["members"]]
                c["layout"]["folders"] = [{"members": every, "chain": [{"id": ["DEFLATE", "ZSTD", "LZMA2", "DEFLATE", "LZMA"][(i // 10) % 5]}]}]
                return {"ref": {"members": c["members"], "layout": c["layout"]}, "open": r.pick(["stream", "path", "anon"]), "rng": r.randrange(1 << 30),
                        "sampled": 400 if tier == "quick" else 3000, "block": 16}
            if r.chance(0.6):
                c["layout"]["packcrc"] = True
            # the block size the library reads and digests packed streams in: every verdict must hold whatever it is
            return {"ref": {"members": c["members"], "layout": c["layout"]}, "open": r.pick(["stream", "path", "anon"]), "rng": r.randrange(1 << 30), "sampled": 400 if tier == "quick" else 3000,
                    "block": r.pick([16, 16, 64]) if i % 10 == 9 else r.pick([None, 16, 16, 64])}
    fams = gen.COMPRESSORS
    arc = rsess.gen_archive(rng.sub("arc"), tier, maxlen=120, want_dirs=False if r.chance(0.6) else True)
    # stratify the first session's chain over the compressor families and header modes
    if arc["sessions"]:
        s0 = arc["sessions"][0]
        comp = fams[i % len(fams)]
        chain = [{"id": comp}]
        if comp == "PPMD":
            chain = [{"id": "PPMD", "order": 6, "mem": 16}]
        if s0.get("password") is not None:
            chain.append({"id": "AES"})
        s0["chain"] = chain
        s0["header"] = ["raw", "enc", "crypt"][(i // len(fams)) % 3] if s0.get("password") is not None else ["raw", "enc"][(i // len(fams)) % 2]
        if r.chance(0.3):
            # a tiny tree with symbolic links: their targets are only materialised when extracting to a directory
            s0["ops"].insert(0, {"op": "writeall", "name": "lk" + gen.gen_component(r, "ascii"), "tree": [
                {"path": "f", "kind": "file", "content": gen.gen_content(r, maxlen=60, minlen=1), "mode": 0o644, "mtime_ns": 1_400_000_000_000_000_000},
                {"path": "l1", "kind": "link", "target": "f"}, {"path": "l2", "kind": "link", "target": "./f"[2:]}]})
        for s in arc["sessions"]:
            s["ops"] = s["ops"][:3]
            for op in s["ops"]:
                if op["op"] == "writeall":
                    op["tree"] = op["tree"][:3]
    return {"archive": arc, "open": r.pick(["stream", "path", "anon"]), "rng": r.randrange(1 << 30), "sampled": 400 if tier == "quick" else 3000}


def faults_for(img: bytes, rng: Rng, nsampled, packed_span):
    n = len(img)
    for byte in range(n):
        for bit in range(8):
            yield ("bitflip", byte, bit)
    for ln in range(n):
        yield ("truncate", ln, 0)
    lo, hi = packed_span
    for _ in range(nsampled):
        k = rng.wpick([(4, "overwrite"), (3, "burst"), (2, "insert"), (2, "delete"), (1, "extend"), (2, "blockswap")])
        if k == "overwrite":
            yield ("overwrite", rng.randrange(n), rng.randrange(1, 256))
        elif k == "burst":
            yield ("burst", rng.randrange(n * 8), rng.randint(2, 32), rng.getrandbits(32) | 1)
        elif k == "insert":
            yield ("insert", rng.randrange(n + 1), rng.bytes_(rng.randint(1, 8)).hex())
        elif k == "delete":
            yield ("delete", rng.randrange(n), rng.randint(1, 8))
        elif k == "extend":
            yield ("extend", n, rng.bytes_(rng.randint(1, 40)).hex())
        elif hi - lo >= 4:
            a = rng.randrange(lo, hi - 1)
            ln = rng.randint(1, max(1, (hi - a) // 2))
            b = rng.randrange(lo, hi - ln + 1)
            yield ("blockswap", a, b, ln)


def apply_fault(img: bytes, f):
    d = bytearray(img)
    k = f[0]
    if k == "bitflip":
        d[f[1]] ^= 1 << f[2]
    elif k == "truncate":
        del d[f[1]:]
    elif k == "overwrite":
        d[f[1]] ^= f[2]
    elif k == "burst":
        start, ln, pat = f[1], f[2], f[3]
        for j in range(ln):
            if pat >> j & 1 and start + j < len(d) * 8:
                d[(start + j) >> 3] ^= 1 << ((start + j) & 7)
    elif k == "insert":
        d[f[1]:f[1]] = bytes.fromhex(f[2])
    elif k == "delete":
        del d[f[1]:f[1] + f[2]]
    elif k == "extend":
        d += bytes.fromhex(f[2])
    elif k == "blockswap":
        a, b, ln = f[1], f[2], f[3]
        x, y = bytes(d[a:a + ln]), bytes(d[b:b + ln])
        if len(x) == len(y):
            d[a:a + ln], d[b:b + ln] = y, x
    return bytes(d)


def _short(v):
    return (v[0], v[1] if not isinstance(v[1], bytes) else "%d bytes" % len(v[1]))


def _region(built, off):
    ref = built.ref
    if off < 32:
        return "signature_header"
    end = 32 + (ref.data_end or 0)
    if off < end:
        return "packed_data"
    hdr_start = 32 + ref.sig["nofs"]
    if off < hdr_start:
        return "packed_header"
    return "header"


_BLOCK = [None]  # set per case by run_case


def _open(py7zr, img, kind, password):
    fs = SimFS()
    fs.add(rsess.READ_PATH, img)
    seams = Seams(fs=fs, inline_threads=True, blocksize=_BLOCK[0])
    seams.__enter__()
    try:
        target = rsess.READ_PATH if kind == "path" else SimRaw(fs.get(rsess.READ_PATH), readable=True, anonymous=kind == "anon")
        z = py7zr.SevenZipFile(target, "r", password=password)
    except BaseException:
        seams.__exit__(None, None, None)
        raise
    return z, seams


def evaluate(py7zr, img, kind, password, model_map, budget, tree_model=None, outdir=None):
    """Returns (extract outcome, testzip outcome, test outcome, steps); outcome = 'error' | 'ok' | 'wrong:<why>' | 'spin' | verdict."""
    steps = 0
    out = []
    for seq in ("extract", "testzip", "test"):
        try:
            with StepCounter(budget) as sc:
                try:
                    z, seams = _open(py7zr, img, kind, password)
                except Exception:
                    steps += sc.steps
                    return ("error", "error", "error", steps, False)
                try:
                    if seq == "extract" and tree_model is not None:
                        # archives with symbolic links are extracted to a directory: link targets only exist on that path
                        import shutil as _sh

                        _sh.rmtree(outdir, ignore_errors=True)
                        os.makedirs(outdir)
                        z.extractall(path=outdir)
                        got_tree = rsess.snapshot_tree(outdir)
                        bad = None
                        for k_, v_ in got_tree.items():
                            if k_ not in tree_model:
                                bad = "unknown path %r created" % k_
                                break
                            if v_ != tree_model[k_]:
                                bad = "%r extracted as %r, original %r" % (k_, _short(v_), _short(tree_model[k_]))
                                break
                        out.append("ok" if bad is None else "wrong:" + bad)
                        out_full = bad is None and set(got_tree) == set(tree_model)
                    elif seq == "extract":
                        names = z.getnames()
                        fac = rw.make_factory()
                        z.extractall(factory=fac)
                        got = fac.result()
                        bad = None
                        for n, d in got.items():
                            if n not in model_map:
                                bad = "unknown name %r delivered" % n
                                break
                            if d != model_map[n]:
                                bad = "member %r delivered with different bytes (%d vs %d)" % (n, len(d), len(model_map[n]))
                                break
                        out.append("ok" if bad is None else "wrong:" + bad)
                        out_full = bad is None and set(got) == set(model_map)
                    elif seq == "testzip":
                        out.append(("verdict", z.testzip()))
                    else:
                        out.append(("verdict", z.test()))
                except Exception as e:
                    out.append("error")
                    if seq == "extract":
                        out_full = False
                finally:
                    try:
                        z.close()
                    except Exception:
                        pass
                    seams.__exit__(None, None, None)
            steps += sc.steps
        except StepBudgetExceeded:
            out.append("spin")
            steps += budget
            if seq == "extract":
                out_full = False
    return (out[0], out[1], out[2], steps, out_full)


def run_case(case):
    py7zr = import_py7zr()
    res = {"evals": 0, "violations": [], "faults": {}, "probes": {}, "rejected": {}, "classes": {}, "sim_steps": 0, "extra": {}}
    built = rsess.build_from_ref(case["ref"]) if "ref" in case else rsess.build_archive(case["archive"])
    if built.rejected or built.error is not None or built.image is None or not built.model or len(built.image) > 6000:
        res["extra"]["archive_skipped"] = 1
        res["digest"] = digest_of(["skipped"])
        return res
    img = built.image
    _BLOCK[0] = case.get("block")
    model_map = {m.name: m.data for m in built.model if m.kind != "dir"}
    if "ref" in case:
        chains = [[{"id": f["id"]} for f in fo["chain"]] for fo in case["ref"]["layout"]["folders"]] or [None]
        hdrs = [case["ref"]["layout"]["header"]]
        cls = {"open": case["open"], "multi": built.nfolders > 1, "encrypted": built.password is not None, "header": hdrs[0], "source": "ref7z"}
    else:
        chains = [s.get("chain") for s in case["archive"]["sessions"]]
        hdrs = sorted({s["header"] for s in case["archive"]["sessions"]})
        cls = {"open": case["open"], "multi": built.nfolders > 1, "encrypted": built.password is not None, "header": case["archive"]["sessions"][-1]["header"]}
    cls.update(gen.dep_flags(chains, None, None))
    budget = 60000 + 60 * len(img) + 8 * sum(len(d) for d in model_map.values())

    def viol(oracle, site, detail, sub, **extra):
        c = dict(cls)
        c.update(extra)
        res["violations"].append({"fp": {"oracle": oracle, "site": site, "class": c}, "detail": detail, "sub": sub})

    # intact archive: no damage reported
    tree_model = rsess.expected_tree(built.model) if any(m.kind == "symlink" for m in built.model) else None
    outdir = None
    if tree_model is not None:
        from simkit import driver as _d

        outdir = os.path.join(_d.worker_scratch(), "c04out")
        res["probes"]["extracted_to_directory(symlinks)"] = 1
    ex, tz, ts, st, full = evaluate(py7zr, img, case["open"], built.password, model_map, budget * 20, tree_model, outdir)
    res["sim_steps"] += st
    if ex != "ok" or not full:
        viol("intact_archive_rejected", "extractall", "pristine archive: extract outcome %r" % (ex,), None)
    if tz != ("verdict", None):
        viol("intact_archive_reported_damaged", "testzip", "testzip() on the pristine archive gave %r" % (tz,), None)
    if ts not in (("verdict", None), ("verdict", True)):
        viol("intact_archive_reported_damaged", "test", "test() on the pristine archive gave %r" % (ts,), None)
    lo, hi = 32, 32 + (built.ref.data_end or 0)
    only = case.get("only")
    n_diff = 0
    log = []
    harmless = 0
    for f in faults_for(img, Rng(case["rng"], "faults"), case.get("sampled", 400), (lo, hi)):
        f = list(f)
        if only is not None and f not in only:
            continue
        D = apply_fault(img, f)
        res["evals"] += 1
        res["faults"][f[0]] = res["faults"].get(f[0], 0) + 1
        if D == img:
            continue
        n_diff += 1
        ex, tz, ts, st, full = evaluate(py7zr, D, case["open"], built.password, model_map, budget, tree_model, outdir)
        res["sim_steps"] += st
        region = _region(built, f[1] if f[0] != "burst" else f[1] // 8) if f[0] not in ("extend",) else "beyond_end"
        if "spin" in (ex, tz, ts):
            res["extra"]["spin_handed_to_C05"] = res["extra"].get("spin_handed_to_C05", 0) + 1
        if isinstance(ex, str) and ex.startswith("wrong:"):
            viol("delivered_wrong_content", "extractall", "%r on a %d-byte archive: %s" % (f, len(img), ex[6:]), f, fault=f[0], region=region)
        if ex != "ok" or not full:
            # extraction does not reproduce the original members: the integrity tests must not certify D
            if ex != "spin":
                if tz == ("verdict", None) and ex != "ok":
                    viol("certified_bad_archive", "testzip", "%r: testzip() returned None but extractall gives %s" % (f, ex if isinstance(ex, str) else ex), f, fault=f[0], region=region)
                if ts == ("verdict", True) and ex != "ok":
                    viol("certified_bad_archive", "test", "%r: test() returned True but extractall gives %s" % (f, ex), f, fault=f[0], region=region)
        else:
            harmless += 1
        log.append((f, ex if isinstance(ex, str) else "v", tz, ts))
    if outdir:
        import shutil as _sh

        _sh.rmtree(outdir, ignore_errors=True)
    res["probes"].setdefault("extracted_to_directory(symlinks)", 0)
    res["distinct_n"] = n_diff
    res["extra"]["harmless_faults"] = harmless
    res["probes"]["multi_folder_archive"] = 1 if built.nfolders > 1 else 0
    res["probes"]["encrypted_archive"] = 1 if built.password is not None else 0
    res["classes"]["%s|%s" % (gen.chain_family(chains[0]), "+".join(hdrs))] = 1
    res["digest"] = digest_of([img, log])
    res["sample"] = {"archive_bytes": len(img), "chains": [gen.chain_family(c) for c in chains], "headers": hdrs, "folders": built.nfolders,
                     "members": [(m.name, len(m.data) if m.data is not None else None) for m in built.model][:6], "images": res["evals"], "open": case["open"]}
    return res


def pin(case, sub):
    import copy

    c = copy.deepcopy(case)
    c["only"] = [list(sub)]
    return c


def shrink_candidates(case):
    import copy

    if case.get("only") is not None or "ref" in case:
        return
    arc = case["archive"]
    if len(arc["sessions"]) > 1:
        c = copy.deepcopy(case)
        c["archive"]["sessions"].pop()
        yield c
    for si, s in enumerate(arc["sessions"]):
        for i in range(len(s["ops"]) - 1, -1, -1):
            if sum(len(x["ops"]) for x in arc["sessions"]) > 1:
                c = copy.deepcopy(case)
                del c["archive"]["sessions"][si]["ops"][i]
                yield c
    if case["open"] != "stream":
        c = copy.deepcopy(case)
        c["open"] = "stream"
        yield c


def case_class(case):
    if "ref" in case:
        return gen.dep_flags([[{"id": f["id"]} for f in fo["chain"]] for fo in case["ref"]["layout"]["folders"]], None, None)
    return gen.dep_flags([s.get("chain") for s in case["archive"]["sessions"]], None, None)
