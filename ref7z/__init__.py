"""ref7z: independent 7z container reader / writer used as oracle and as generator (DESIGN.md 3.1)."""
from .reader import Archive, FormatError, Member, read, enforced_issues  # noqa: F401
from .codecs import CodecError, NeedPassword, Unsupported  # noqa: F401
