"""Independent 7z container reader with strict structural validation (DESIGN.md 3.1).
Written from docs/archive_format.rst / the public 7z format notes; shares no code with py7zr."""
import struct
import zlib

from . import codecs as C
from .codecs import CodecError, NeedPassword, Unsupported  # noqa: F401

MAGIC = b"7z\xbc\xaf\x27\x1c"

K_END, K_HEADER, K_ARCPROPS, K_ADDSTREAMS, K_MAINSTREAMS, K_FILES = 0, 1, 2, 3, 4, 5
K_PACKINFO, K_UNPACKINFO, K_SUBSTREAMS, K_SIZE, K_CRC, K_FOLDER = 6, 7, 8, 9, 10, 11
K_CODERSUNPACKSIZE, K_NUMUNPACKSTREAM, K_EMPTYSTREAM, K_EMPTYFILE, K_ANTI = 12, 13, 14, 15, 16
K_NAMES, K_CTIME, K_ATIME, K_MTIME, K_ATTRS, K_COMMENT, K_ENCODED, K_STARTPOS, K_DUMMY = 17, 18, 19, 20, 21, 22, 23, 24, 25

FAMILIES = ("sig", "tile", "sizecrc", "counts", "propsize")  # the five families C07's statement names

ATTR_DIR = 0x10
ATTR_REPARSE = 0x400
ATTR_UNIX_EXT = 0x8000


class FormatError(Exception):
    def __init__(self, family, msg):
        super().__init__("%s: %s" % (family, msg))
        self.family = family
        self.msg = msg


class Buf:
    def __init__(self, data: bytes, what="header"):
        self.d = data
        self.p = 0
        self.what = what

    def left(self):
        return len(self.d) - self.p

    def byte(self):
        if self.p >= len(self.d):
            raise FormatError("propsize", "%s: unexpected end of data" % self.what)
        b = self.d[self.p]
        self.p += 1
        return b

    def take(self, n):
        if n < 0 or self.p + n > len(self.d):
            raise FormatError("propsize", "%s: need %d bytes, %d left" % (self.what, n, self.left()))
        b = self.d[self.p : self.p + n]
        self.p += n
        return b

    def number(self):
        """7z NUMBER: first byte's leading 1-bits give the count of extra little-endian bytes."""
        b = self.byte()
        mask = 0x80
        extra = 0
        while extra < 8 and b & mask:
            extra += 1
            mask >>= 1
        if extra == 8:
            return struct.unpack("<Q", self.take(8))[0]
        low = int.from_bytes(self.take(extra), "little")
        high = b & (mask - 1)
        return low + (high << (8 * extra))

    def u32(self):
        return struct.unpack("<I", self.take(4))[0]

    def u64(self):
        return struct.unpack("<Q", self.take(8))[0]

    def bits(self, n):
        raw = self.take((n + 7) // 8)
        return [bool(raw[i >> 3] & (0x80 >> (i & 7))) for i in range(n)], raw

    def opt_bits(self, n):
        """'all defined' byte, else an explicit bit vector."""
        if self.byte() != 0:
            return [True] * n, None
        return self.bits(n)


class Member:
    __slots__ = ("name", "kind", "data", "mtime", "ctime", "atime", "attributes", "crc", "emptystream", "size", "folder", "anti")

    def __init__(self):
        self.name = None
        self.kind = "file"
        self.data = None
        self.mtime = self.ctime = self.atime = None
        self.attributes = None
        self.crc = None
        self.emptystream = False
        self.size = 0
        self.folder = None
        self.anti = False

    def as_tuple(self):
        return (self.name, self.kind, self.data)


class Archive:
    def __init__(self):
        self.members = []
        self.issues = []  # (family, text) : breaches of enforced rules
        self.lint = []  # observations that never raise an alarm
        self.header_kind = None  # 'raw' | 'encoded' | 'empty'
        self.header_coders = []  # list of method id lists, outermost first
        self.main = None  # parsed main streams dict
        self.files_props = None
        self.ivs = []  # IVs of every AES coder met (header folders and data folders)
        self.header_bytes = None
        self.data_end = None
        self.trailing = 0
        self.undecoded = []  # folders whose coders are unsupported
        self.header_packs = []

    def names(self):
        return [m.name for m in self.members]

    def issue(self, family, text):
        self.issues.append((family, text))


# ---------------------------------------------------------------------------------------------
def parse_streams(b: Buf, arc: Archive):
    """StreamsInfo up to and including its kEnd.  Returns dict(packinfo, folders, substreams)."""
    si = {"packinfo": None, "folders": None, "substreams": None, "folder_crcs_defined": False}
    t = b.byte()
    if t == K_PACKINFO:
        pi = {"packpos": b.number(), "sizes": [], "crcs": None}
        n = b.number()
        if n > 1 << 24:
            raise FormatError("counts", "absurd pack stream count %d" % n)
        pi["n"] = n
        t2 = b.byte()
        if t2 == K_SIZE:
            pi["sizes"] = [b.number() for _ in range(n)]
            t2 = b.byte()
        if t2 == K_CRC:
            defined, _ = b.opt_bits(n)
            pi["crcs"] = [b.u32() if d else None for d in defined]
            t2 = b.byte()
        if t2 != K_END:
            raise FormatError("propsize", "PackInfo: end expected, got 0x%02x" % t2)
        if len(pi["sizes"]) != n:
            arc.issue("counts", "PackInfo: %d streams declared, %d sizes" % (n, len(pi["sizes"])))
        si["packinfo"] = pi
        t = b.byte()
    if t == K_UNPACKINFO:
        if b.byte() != K_FOLDER:
            raise FormatError("propsize", "UnpackInfo: folder id expected")
        nf = b.number()
        if nf > 1 << 20:
            raise FormatError("counts", "absurd folder count %d" % nf)
        if b.byte() != 0:
            raise Unsupported("external folder definitions")
        folders = [parse_folder(b) for _ in range(nf)]
        if b.byte() != K_CODERSUNPACKSIZE:
            raise FormatError("propsize", "UnpackInfo: coders unpack size id expected")
        for f in folders:
            f["unpacksizes"] = [b.number() for _ in range(f["totalout"])]
        t2 = b.byte()
        if t2 == K_CRC:
            defined, _ = b.opt_bits(nf)
            for f, d in zip(folders, defined):
                f["crc"] = b.u32() if d else None
            si["folder_crcs_defined"] = True
            t2 = b.byte()
        if t2 != K_END:
            raise FormatError("propsize", "UnpackInfo: end expected, got 0x%02x" % t2)
        si["folders"] = folders
        t = b.byte()
    if t == K_SUBSTREAMS:
        if si["folders"] is None:
            raise FormatError("counts", "SubStreamsInfo without UnpackInfo")
        folders = si["folders"]
        ss = {"nums": [1] * len(folders), "sizes": None, "crcs": None, "nums_explicit": False}
        t2 = b.byte()
        if t2 == K_NUMUNPACKSTREAM:
            ss["nums"] = [b.number() for _ in folders]
            ss["nums_explicit"] = True
            if any(n > 1 << 24 for n in ss["nums"]):
                raise FormatError("counts", "absurd substream count")
            t2 = b.byte()
        sizes = []
        if t2 == K_SIZE:
            for f, n in zip(folders, ss["nums"]):
                s = [b.number() for _ in range(max(n - 1, 0))]
                sizes.append(s)
            ss["sizes_explicit"] = True
            t2 = b.byte()
        else:
            sizes = [[] for _ in folders]
            ss["sizes_explicit"] = False
        full = []
        for f, n, s in zip(folders, ss["nums"], sizes):
            total = folder_unpack_size(f)
            if n == 0:
                full.append([])
                continue
            if n > 1 and not ss["sizes_explicit"]:
                raise FormatError("counts", "folder with %d substreams but no sizes" % n)
            rest = total - sum(s)
            if rest < 0:
                arc.issue("sizecrc", "substream sizes %r exceed folder size %d" % (s, total))
            full.append(s + [rest])
        ss["sizes"] = full
        ncrc = sum(n for f, n in zip(folders, ss["nums"]) if not (n == 1 and f.get("crc") is not None))
        crcs_unknown = None
        if t2 == K_CRC:
            defined, _ = b.opt_bits(ncrc)
            crcs_unknown = [b.u32() if d else None for d in defined]
            t2 = b.byte()
        crcs = []
        k = 0
        for f, n in zip(folders, ss["nums"]):
            if n == 1 and f.get("crc") is not None:
                crcs.append([f["crc"]])
            else:
                if crcs_unknown is None:
                    crcs.append([None] * n)
                else:
                    crcs.append(crcs_unknown[k : k + n])
                    k += n
        ss["crcs"] = crcs
        if t2 != K_END:
            raise FormatError("propsize", "SubStreamsInfo: end expected, got 0x%02x" % t2)
        si["substreams"] = ss
        t = b.byte()
    if t != K_END:
        raise FormatError("propsize", "StreamsInfo: end expected, got 0x%02x" % t)
    if si["folders"] is not None and si["substreams"] is None:
        folders = si["folders"]
        si["substreams"] = {
            "nums": [1] * len(folders), "nums_explicit": False, "sizes_explicit": False,
            "sizes": [[folder_unpack_size(f)] for f in folders],
            "crcs": [[f.get("crc")] for f in folders], "implicit": True,
        }
    return si


def parse_folder(b: Buf):
    nc = b.number()
    if nc == 0 or nc > 32:
        raise FormatError("counts", "folder with %d coders" % nc)
    coders = []
    totalin = totalout = 0
    for _ in range(nc):
        flag = b.byte()
        if flag & 0xC0:
            raise Unsupported("reserved coder flag bits 0x%02x" % flag)
        mid = b.take(flag & 0x0F)
        if flag & 0x10:
            nin, nout = b.number(), b.number()
            if nin > 32 or nout > 32:
                raise FormatError("counts", "coder with %d/%d streams" % (nin, nout))
        else:
            nin = nout = 1
        props = None
        if flag & 0x20:
            pl = b.number()
            props = b.take(pl)
        coders.append({"id": bytes(mid) if mid else b"\x00", "numin": nin, "numout": nout, "props": props})
        totalin += nin
        totalout += nout
    nbp = totalout - 1
    bind = [(b.number(), b.number()) for _ in range(nbp)]  # (in index, out index)
    npacked = totalin - nbp
    if npacked < 1:
        raise FormatError("counts", "folder with no packed stream")
    if npacked == 1:
        bound_in = {i for i, _ in bind}
        packed = [i for i in range(totalin) if i not in bound_in][:1]
    else:
        packed = [b.number() for _ in range(npacked)]
    return {"coders": coders, "bind": bind, "packed": packed, "totalin": totalin, "totalout": totalout, "crc": None, "unpacksizes": []}


def folder_main_out(f):
    bound_out = {o for _, o in f["bind"]}
    free = [o for o in range(f["totalout"]) if o not in bound_out]
    if len(free) != 1:
        raise FormatError("counts", "folder has %d unbound out-streams" % len(free))
    return free[0]


def folder_unpack_size(f):
    return f["unpacksizes"][folder_main_out(f)]


def parse_files(b: Buf, arc: Archive):
    n = b.number()
    if n > 1 << 24:
        raise FormatError("counts", "absurd file count %d" % n)
    fi = {"n": n, "props": [], "emptystream": [False] * n, "emptyfile": None, "anti": None, "names": None,
          "mtime": None, "ctime": None, "atime": None, "attrs": None}
    nempty = 0
    while True:
        t = b.byte()
        if t == K_END:
            break
        size = b.number()
        payload = b.take(size)
        pb = Buf(payload, "property 0x%02x" % t)
        fi["props"].append((t, size))
        try:
            if t == K_EMPTYSTREAM:
                fi["emptystream"], raw = pb.bits(n)
                nempty = sum(fi["emptystream"])
                _padding_lint(arc, raw, n, "emptystream")
            elif t == K_EMPTYFILE:
                fi["emptyfile"], raw = pb.bits(nempty)
            elif t == K_ANTI:
                fi["anti"], raw = pb.bits(nempty)
            elif t == K_NAMES:
                if pb.byte() != 0:
                    raise Unsupported("external names")
                raw = pb.take(pb.left())
                if len(raw) % 2:
                    arc.issue("propsize", "names property has odd length %d" % len(raw))
                names = []
                cur = bytearray()
                for i in range(0, len(raw) - 1, 2):
                    ch = raw[i : i + 2]
                    if ch == b"\x00\x00":
                        names.append(bytes(cur))
                        cur = bytearray()
                    else:
                        cur += ch
                if cur:
                    arc.issue("propsize", "names property not NUL terminated")
                if len(names) != n:
                    arc.issue("counts", "names property holds %d names for %d files" % (len(names), n))
                dec = []
                for x in names:
                    try:
                        dec.append(x.decode("utf-16-le"))
                    except UnicodeDecodeError:
                        dec.append(x.decode("utf-16-le", "surrogatepass"))
                        arc.lint.append("name with unpaired surrogate")
                fi["names"] = dec
            elif t in (K_MTIME, K_CTIME, K_ATIME):
                defined, _ = pb.opt_bits(n)
                if pb.byte() != 0:
                    raise Unsupported("external times")
                vals = [pb.u64() if d else None for d in defined]
                fi[{K_MTIME: "mtime", K_CTIME: "ctime", K_ATIME: "atime"}[t]] = vals
            elif t == K_ATTRS:
                defined, _ = pb.opt_bits(n)
                if pb.byte() != 0:
                    raise Unsupported("external attributes")
                fi["attrs"] = [pb.u32() if d else None for d in defined]
            elif t == K_DUMMY:
                if any(payload):
                    arc.lint.append("non-zero dummy padding")
                pb.p = len(payload)
            elif t == K_STARTPOS:
                pb.p = len(payload)
            elif t == K_COMMENT:
                pb.p = len(payload)
            else:
                raise FormatError("propsize", "unknown file property 0x%02x" % t)
        except FormatError as e:
            if e.family == "propsize":
                raise FormatError("propsize", "file property 0x%02x (declared size %d): %s" % (t, size, e.msg))
            raise
        if pb.left() != 0:
            arc.issue("propsize", "file property 0x%02x declares %d bytes but its content needs %d" % (t, size, pb.p))
    return fi


def _padding_lint(arc, raw, n, what):
    if n % 8 and raw and raw[-1] & ((1 << (8 - n % 8)) - 1):
        arc.lint.append("non-zero padding bits in %s vector" % what)


# ---------------------------------------------------------------------------------------------
def decode_folder(f, packed_streams, password, arc: Archive, what="folder"):
    """Follow the coder graph from the packed stream(s) to the unbound out-stream.  Only linear chains of
    1-in/1-out coders are decoded."""
    for c in f["coders"]:
        if c["numin"] != 1 or c["numout"] != 1:
            raise Unsupported("complex coder %s" % c["id"].hex())
        if c["id"] not in C.NAMES or c["id"] in (C.M_BCJ2, C.M_LZ4):
            raise Unsupported("method %s" % c["id"].hex())
    if len(packed_streams) != 1:
        raise Unsupported("folder with %d packed streams" % len(packed_streams))
    n = len(f["coders"])
    in2out = {i: o for i, o in f["bind"]}  # in-stream i is fed by out-stream o
    out2in = {o: i for i, o in f["bind"]}
    if len(in2out) != len(f["bind"]) or len(out2in) != len(f["bind"]):
        raise FormatError("counts", "bind pairs reuse a stream")
    for i, o in f["bind"]:
        if not (0 <= i < n and 0 <= o < n):
            raise FormatError("counts", "bind pair (%d,%d) out of range" % (i, o))
    cur = f["packed"][0]
    if not 0 <= cur < n:
        raise FormatError("counts", "packed stream index %d out of range" % cur)
    data = packed_streams[0]
    seen = set()
    while True:
        if cur in seen:
            raise FormatError("counts", "coder graph has a cycle")
        seen.add(cur)
        c = f["coders"][cur]
        want = f["unpacksizes"][cur]
        if c["id"] == C.M_AES:
            try:
                arc.ivs.append(C.aes_parse_props(c["props"])[2])
            except CodecError:
                pass
        out = C.decode(c["id"], c["props"], data, want, password)
        if c["id"] == C.M_AES:
            if len(out) < want:
                arc.issue("sizecrc", "%s: AES coder yields %d bytes, %d declared" % (what, len(out), want))
            else:
                if any(out[want:]):
                    arc.lint.append("non-zero AES padding")
                out = out[:want]
        elif len(out) != want:
            arc.issue("sizecrc", "%s: coder %s yields %d bytes, %d declared" % (what, C.NAMES[c["id"]], len(out), want))
        data = out
        if cur in out2in:
            cur = out2in[cur]
        else:
            break
    if len(seen) != n:
        raise FormatError("counts", "coder graph is not a single chain")
    return data


def _slice_packed(image, base, pi, first, count, arc, what):
    out = []
    pos = base + pi["packpos"] + sum(pi["sizes"][:first])
    for k in range(first, first + count):
        if k >= len(pi["sizes"]):
            raise FormatError("counts", "%s needs pack stream %d, only %d declared" % (what, k, len(pi["sizes"])))
        sz = pi["sizes"][k]
        if pos + sz > len(image):
            raise FormatError("tile", "%s: pack stream %d [%d,%d) beyond end of file %d" % (what, k, pos, pos + sz, len(image)))
        s = image[pos : pos + sz]
        if pi["crcs"] is not None and pi["crcs"][k] is not None and zlib.crc32(s) != pi["crcs"][k]:
            arc.issue("sizecrc", "%s: pack stream %d CRC mismatch" % (what, k))
        out.append(s)
        pos += sz
    return out


def read(image: bytes, password=None, decode_data=True) -> Archive:
    arc = Archive()
    if len(image) < 32:
        raise FormatError("sig", "file shorter than a signature header")
    if image[:6] != MAGIC:
        raise FormatError("sig", "bad signature")
    arc.version = (image[6], image[7])
    if image[6] != 0:
        arc.lint.append("major version %d" % image[6])
    start_crc, = struct.unpack("<I", image[8:12])
    nofs, nsize, ncrc = struct.unpack("<QQI", image[12:32])
    if zlib.crc32(image[12:32]) != start_crc:
        raise FormatError("sig", "start header CRC mismatch")
    arc.sig = {"nofs": nofs, "nsize": nsize, "ncrc": ncrc}
    if nsize == 0:
        arc.header_kind = "empty"
        arc.data_end = 32
        if nofs != 0 and 32 + nofs > len(image):
            raise FormatError("sig", "empty header placed beyond end of file")
        return arc
    if 32 + nofs + nsize > len(image):
        raise FormatError("sig", "next header [%d,%d) beyond end of file %d" % (32 + nofs, 32 + nofs + nsize, len(image)))
    hdr = image[32 + nofs : 32 + nofs + nsize]
    if zlib.crc32(hdr) != ncrc:
        raise FormatError("sig", "next header CRC mismatch")
    arc.trailing = len(image) - (32 + nofs + nsize)
    if arc.trailing:
        arc.lint.append("%d trailing bytes after the header" % arc.trailing)
    data_limit = nofs  # data area ends where the (outermost) header representation starts
    depth = 0
    arc.header_kind = "raw"
    header_packs = []
    while True:
        b = Buf(hdr)
        t = b.byte()
        if t == K_HEADER:
            break
        if t != K_ENCODED:
            raise FormatError("propsize", "header starts with 0x%02x" % t)
        arc.header_kind = "encoded"
        depth += 1
        if depth > 4:
            raise FormatError("counts", "header encoded more than 4 times")
        si = parse_streams_noend(b, arc)
        if b.left():
            arc.lint.append("%d bytes after encoded-header streams info" % b.left())
        pi, folders = si["packinfo"], si["folders"]
        if pi is None or not folders:
            raise FormatError("counts", "encoded header without pack info / folder")
        if len(folders) != 1:
            arc.lint.append("encoded header with %d folders" % len(folders))
        out = bytearray()
        k = 0
        for f in folders:
            np_ = len(f["packed"])
            streams = _slice_packed(image, 32, pi, k, np_, arc, "header folder")
            k += np_
            arc.header_coders.append([c["id"] for c in f["coders"]])
            dec = decode_folder(f, streams, password, arc, "header folder")
            if f.get("crc") is not None and zlib.crc32(dec) != f["crc"]:
                arc.issue("sizecrc", "encoded header: folder CRC mismatch")
            if f.get("crc") is None:
                arc.lint.append("encoded header folder carries no CRC")
            out += dec
        if k != len(pi["sizes"]):
            arc.issue("counts", "encoded header: %d pack streams declared, %d used" % (len(pi["sizes"]), k))
        hp_start = pi["packpos"]
        hp_end = pi["packpos"] + sum(pi["sizes"])
        header_packs.append((hp_start, hp_end))
        if hp_end != data_limit:
            arc.issue("tile", "header pack stream ends at %d, next header representation starts at %d" % (hp_end, data_limit))
        data_limit = hp_start
        hdr = bytes(out)
    arc.header_bytes = hdr
    arc.header_packs = header_packs  # (start, end) of every packed header stream, relative to the end of the signature header
    # --- Header ---
    t = b.byte()
    if t == K_ARCPROPS:
        while True:
            pt = b.byte()
            if pt == K_END:
                break
            b.take(b.number())
        t = b.byte()
    if t == K_ADDSTREAMS:
        raise Unsupported("additional streams")
    main = None
    if t == K_MAINSTREAMS:
        main = parse_streams(b, arc)
        t = b.byte()
    files = None
    if t == K_FILES:
        files = parse_files(b, arc)
        t = b.byte()
    if t != K_END:
        raise FormatError("propsize", "Header: end expected, got 0x%02x" % t)
    if b.left():
        arc.lint.append("%d unused bytes at end of header" % b.left())
    arc.main = main
    arc.files_props = files
    # --- tiling of the data area ---
    if main is not None and main["packinfo"] is not None:
        pi = main["packinfo"]
        end = pi["packpos"] + sum(pi["sizes"])
        arc.data_end = end
        if end > data_limit:
            arc.issue("tile", "packed streams end at %d, beyond the start of the header at %d" % (end, data_limit))
        elif end < data_limit:
            arc.issue("tile", "gap of %d bytes between packed streams (end %d) and header (%d)" % (data_limit - end, end, data_limit))
        if pi["packpos"] != 0:
            arc.lint.append("packpos %d" % pi["packpos"])
    else:
        arc.data_end = 0
        if data_limit != 0:
            arc.issue("tile", "no packed streams but header starts at %d" % data_limit)
    # --- folders / substreams ---
    streams = []  # (data|None, crc, size, folder index)
    if main is not None and main["folders"] is not None:
        folders = main["folders"]
        pi = main["packinfo"]
        ss = main["substreams"]
        need = sum(len(f["packed"]) for f in folders)
        if pi is None:
            if need:
                raise FormatError("counts", "folders without pack info")
        elif need != len(pi["sizes"]):
            arc.issue("counts", "folders use %d pack streams, PackInfo declares %d" % (need, len(pi["sizes"])))
        if len(ss["nums"]) != len(folders):
            arc.issue("counts", "substream counts for %d folders, %d folders" % (len(ss["nums"]), len(folders)))
        k = 0
        for fi_, f in enumerate(folders):
            np_ = len(f["packed"])
            sizes = ss["sizes"][fi_]
            crcs = ss["crcs"][fi_]
            dec = None
            if decode_data:
                try:
                    ps = _slice_packed(image, 32, pi, k, np_, arc, "folder %d" % fi_)
                    if folder_unpack_size(f) == 0 and all(u == 0 for u in f["unpacksizes"]):
                        # a folder that holds no byte of content: nothing to decode (its packed bytes cannot affect any member)
                        dec = b""
                        arc.lint.append("zero-size folder not decoded")
                    else:
                        dec = decode_folder(f, ps, password, arc, "folder %d" % fi_)
                except Unsupported as e:
                    arc.undecoded.append((fi_, str(e)))
                    dec = None
            k += np_
            if dec is not None:
                total = folder_unpack_size(f)
                if len(dec) != total:
                    arc.issue("sizecrc", "folder %d decodes to %d bytes, %d declared" % (fi_, len(dec), total))
                if f.get("crc") is not None and zlib.crc32(dec) != f["crc"]:
                    arc.issue("sizecrc", "folder %d CRC mismatch" % fi_)
            pos = 0
            for sz, crc in zip(sizes, crcs):
                piece = None
                if dec is not None:
                    piece = dec[pos : pos + sz]
                    if len(piece) != sz:
                        arc.issue("sizecrc", "folder %d: substream of %d bytes not covered by the %d decoded bytes" % (fi_, sz, len(dec)))
                    if crc is not None and zlib.crc32(piece) != crc:
                        arc.issue("sizecrc", "folder %d: substream CRC mismatch" % fi_)
                pos += sz
                streams.append((piece, crc, sz, fi_))
            if dec is not None and sizes and pos != len(dec):
                arc.issue("sizecrc", "folder %d: substream sizes sum to %d, folder holds %d" % (fi_, pos, len(dec)))
    # --- files ---
    if files is None:
        if streams:
            arc.issue("counts", "%d substreams but no files" % len(streams))
        return arc
    n = files["n"]
    nonempty = n - sum(files["emptystream"])
    if nonempty != len(streams):
        arc.issue("counts", "%d files with data but %d substreams" % (nonempty, len(streams)))
    if files["emptyfile"] is not None and len(files["emptyfile"]) != sum(files["emptystream"]):
        arc.issue("counts", "emptyfile vector length")
    si_ = 0
    ei = 0
    for i in range(n):
        m = Member()
        m.name = files["names"][i] if files["names"] is not None and i < len(files["names"]) else None
        if m.name is not None:
            m.name = m.name.replace("\\", "/")
        for key in ("mtime", "ctime", "atime"):
            v = files[key]
            setattr(m, key, v[i] if v is not None else None)
        m.attributes = files["attrs"][i] if files["attrs"] is not None else None
        a = m.attributes or 0
        unix = (a >> 16) if a & ATTR_UNIX_EXT else None
        if files["emptystream"][i]:
            m.emptystream = True
            isfile = bool(files["emptyfile"][ei]) if files["emptyfile"] is not None and ei < len(files["emptyfile"]) else False
            m.anti = bool(files["anti"][ei]) if files["anti"] is not None and ei < len(files["anti"]) else False
            ei += 1
            m.kind = "file" if isfile else "dir"
            m.data = b"" if isfile else None
            m.size = 0
        else:
            if si_ < len(streams):
                m.data, m.crc, m.size, m.folder = streams[si_]
            si_ += 1
            m.kind = "file"
            if a & ATTR_DIR:
                arc.lint.append("entry with data flagged as directory")
            if (unix is not None and (unix & 0o170000) == 0o120000) or (unix is None and a & ATTR_REPARSE):
                m.kind = "symlink"
        arc.members.append(m)
    return arc


def parse_streams_noend(b: Buf, arc: Archive):
    """EncodedHeader: StreamsInfo (PackInfo, UnpackInfo, [SubStreams]) terminated by kEnd."""
    return parse_streams(b, arc)


def enforced_issues(arc: Archive):
    return [(f, t) for f, t in arc.issues if f in FAMILIES]
