"""Independent 7z writer: LogicalArchive x Layout -> bytes (DESIGN.md 3.1).  Enumerates the layout freedoms C06 names
and serves as generator of hostile archives (C03) and of re-sealed mutated headers (C05)."""
import struct
import zlib

from . import codecs as C
from .reader import (ATTR_DIR, K_ATTRS, K_ATIME, K_CODERSUNPACKSIZE, K_CRC, K_CTIME, K_DUMMY, K_EMPTYFILE, K_EMPTYSTREAM, K_ENCODED,
                     K_END, K_FILES, K_FOLDER, K_HEADER, K_MAINSTREAMS, K_MTIME, K_NAMES, K_NUMUNPACKSTREAM, K_PACKINFO, K_SIZE,
                     K_SUBSTREAMS, K_UNPACKINFO, MAGIC)


def number(v: int) -> bytes:
    """7z NUMBER, canonical (shortest) form."""
    if v < 0 or v >= 1 << 64:
        raise ValueError(v)
    for extra in range(8):
        if v < 1 << (7 * (extra + 1)):
            first = (0xFF << (8 - extra)) & 0xFF
            first |= v >> (8 * extra)
            return bytes([first]) + (v & ((1 << (8 * extra)) - 1)).to_bytes(extra, "little")
    return b"\xff" + struct.pack("<Q", v)


def bits(vec) -> bytes:
    out = bytearray((len(vec) + 7) // 8)
    for i, b in enumerate(vec):
        if b:
            out[i >> 3] |= 0x80 >> (i & 7)
    return bytes(out)


def opt_bits(defined) -> bytes:
    if all(defined):
        return b"\x01"
    return b"\x00" + bits(defined)


METHOD = {
    "COPY": C.M_COPY, "LZMA": C.M_LZMA, "LZMA2": C.M_LZMA2, "DELTA": C.M_DELTA, "X86": C.M_X86, "ARM": C.M_ARM, "ARMT": C.M_ARMT, "PPC": C.M_PPC,
    "SPARC": C.M_SPARC, "IA64": C.M_IA64, "BZIP2": C.M_BZIP2, "DEFLATE": C.M_DEFLATE, "DEFLATE64": C.M_DEFLATE64, "ZSTD": C.M_ZSTD,
    "BROTLI": C.M_BROTLI, "PPMD": C.M_PPMD, "AES": C.M_AES,
}


def encode_chain(data: bytes, chain, password=None, iv=None, salt=b"", cycles=10):
    """chain: list of {"id": name, params...} in ENCODE order (filter first, compressor, then AES).
    Returns (packed bytes, coders in DECODE order [{id, props}], unpack sizes in decode order)."""
    stages = []
    cur = data
    for f in chain:
        mid = METHOD[f["id"]]
        insize = len(cur)
        if mid == C.M_AES:
            cur, props = C.aes_encrypt(cur, password, f.get("cycles", cycles), bytes.fromhex(f["salt_hex"]) if "salt_hex" in f else f.get("salt", salt), f.get("iv", iv if iv is not None else bytes(range(1, 17))))
        else:
            cur, props = C.encode(mid, cur, f)
        stages.append({"id": mid, "props": props, "outsize": insize})
    coders = [{"id": s["id"], "props": s["props"]} for s in reversed(stages)]
    sizes = [s["outsize"] for s in reversed(stages)]
    return cur, coders, sizes


def ser_folder(coders) -> bytes:
    out = bytearray(number(len(coders)))
    for c in coders:
        flag = len(c["id"]) | (0x20 if c["props"] is not None else 0)
        out.append(flag)
        out += c["id"]
        if c["props"] is not None:
            out += number(len(c["props"])) + c["props"]
    for i in range(len(coders) - 1):
        out += number(i + 1) + number(i)
    return bytes(out)


def ser_streams(packpos, packsizes, packcrcs, folders, substreams=None) -> bytes:
    """folders: [{"coders":[...], "sizes":[...], "crc": int|None}]; substreams: None or
    {"nums":[...], "sizes":[[...]...], "crcs":[[...]...], "omit_nums": bool}"""
    out = bytearray()
    out.append(K_PACKINFO)
    out += number(packpos) + number(len(packsizes))
    out.append(K_SIZE)
    for s in packsizes:
        out += number(s)
    if packcrcs is not None:
        out.append(K_CRC)
        out += opt_bits([c is not None for c in packcrcs])
        for c in packcrcs:
            if c is not None:
                out += struct.pack("<I", c)
    out.append(K_END)
    out.append(K_UNPACKINFO)
    out.append(K_FOLDER)
    out += number(len(folders))
    out.append(0)
    for f in folders:
        out += ser_folder(f["coders"])
    out.append(K_CODERSUNPACKSIZE)
    for f in folders:
        for s in f["sizes"]:
            out += number(s)
    if any(f.get("crc") is not None for f in folders):
        out.append(K_CRC)
        out += opt_bits([f.get("crc") is not None for f in folders])
        for f in folders:
            if f.get("crc") is not None:
                out += struct.pack("<I", f["crc"])
    out.append(K_END)
    if substreams is not None:
        out.append(K_SUBSTREAMS)
        nums = substreams["nums"]
        if not (substreams.get("omit_nums") and all(n == 1 for n in nums)):
            out.append(K_NUMUNPACKSTREAM)
            for n in nums:
                out += number(n)
        if any(n > 1 for n in nums):
            out.append(K_SIZE)
            for n, sz in zip(nums, substreams["sizes"]):
                for s in sz[:-1] if n > 0 else []:
                    out += number(s)
        crcs = []
        for f, n, cs in zip(folders, nums, substreams["crcs"]):
            if n == 1 and f.get("crc") is not None:
                continue
            crcs += cs
        if any(c is not None for c in crcs):
            out.append(K_CRC)
            out += opt_bits([c is not None for c in crcs])
            for c in crcs:
                if c is not None:
                    out += struct.pack("<I", c)
        out.append(K_END)
    out.append(K_END)
    return bytes(out)


def ser_files(entries, layout) -> bytes:
    """entries: [{"name","emptystream","emptyfile","mtime","ctime","atime","attrs"}] in archive order."""
    n = len(entries)
    out = bytearray([K_FILES])
    out += number(n)

    def prop(t, payload):
        out.append(t)
        out.extend(number(len(payload)))
        out.extend(payload)

    es = [e["emptystream"] for e in entries]
    if any(es):
        prop(K_EMPTYSTREAM, bits(es))
        ef = [bool(e.get("emptyfile")) for e in entries if e["emptystream"]]
        if any(ef) or layout.get("emptyfile_vector_always"):
            prop(K_EMPTYFILE, bits(ef))
    if layout.get("dummy"):
        prop(K_DUMMY, bytes(layout["dummy"] - 2 if layout["dummy"] >= 2 else 0))
    if layout.get("names_first", True):
        _names(prop, entries)
    for key, t in (("ctime", K_CTIME), ("atime", K_ATIME), ("mtime", K_MTIME)):
        vals = [e.get(key) for e in entries]
        if any(v is not None for v in vals):
            payload = opt_bits([v is not None for v in vals]) + b"\x00" + b"".join(struct.pack("<Q", v) for v in vals if v is not None)
            prop(t, payload)
    vals = [e.get("attrs") for e in entries]
    if any(v is not None for v in vals):
        payload = opt_bits([v is not None for v in vals]) + b"\x00" + b"".join(struct.pack("<I", v) for v in vals if v is not None)
        prop(K_ATTRS, payload)
    if not layout.get("names_first", True):
        _names(prop, entries)
    if layout.get("dummy_tail"):
        prop(K_DUMMY, bytes(layout["dummy_tail"]))
    out.append(K_END)
    return bytes(out)


def _names(prop, entries):
    payload = b"\x00" + b"".join(e["name"].encode("utf-16-le") + b"\x00\x00" for e in entries)
    prop(K_NAMES, payload)


def signature_header(nofs, nsize, ncrc, version=(0, 4)) -> bytes:
    tail = struct.pack("<QQI", nofs, nsize, ncrc)
    return MAGIC + bytes(version) + struct.pack("<I", zlib.crc32(tail)) + tail


def build(members, layout=None) -> bytes:
    """members: [{"name", "kind": file|dir|symlink|emptyfile, "data", "mtime","ctime","atime","attrs"}] in ARCHIVE order.
    layout keys (all optional):
      folders: list of {"members": [indices into `members` of entries with data, in stream order], "chain": [...],
                        "orphan": n bytes of data that belong to no member (only with members == [])};
               default: one folder with every data member, chain [LZMA2]
      crc: "substream" | "folder" | "folder_partial" | "none"     packcrc: bool      packpos: filler bytes before the first pack stream
      omit_nums: omit kNumUnpackStream when all 1     dummy / dummy_tail: padding record sizes
      emptyfile_vector_always, names_first
      header: "raw" | "lzma" | "aes"     password, iv_seed
      empty_as_stream: zero-length files stored as 0-byte substreams instead of empty-stream entries
    """
    layout = dict(layout or {})
    password = layout.get("password")
    data_idx = [i for i, m in enumerate(members) if m["kind"] in ("file", "symlink") and (len(m["data"]) > 0 or layout.get("empty_as_stream"))]
    folders_l = layout.get("folders")
    if folders_l is None:
        folders_l = [{"members": data_idx, "chain": [{"id": "LZMA2"}]}] if data_idx else []
    # archive order requires: the data members appear in the order of (folder, position in folder)
    flat = [i for f in folders_l for i in f["members"]]
    if sorted(flat) != sorted(data_idx):
        raise ValueError("layout folders must partition the data members")
    if flat != [i for i in range(len(members)) if i in set(flat)]:
        raise ValueError("data members must be listed in stream order")
    crc_mode = layout.get("crc", "substream")
    filler = bytes(layout.get("packpos", 0)) if folders_l else b""
    packs = []
    folders = []
    nums, ssizes, scrcs = [], [], []
    ivn = layout.get("iv_seed", 1)
    for fi, f in enumerate(folders_l):
        blob = b"".join(members[i]["data"] for i in f["members"])
        if not f["members"] and f.get("orphan"):
            # a folder that holds data but no member (NumUnpackStream == 0 with a non-zero unpack size): readers skip it
            blob = bytes((k * 37 + 11) & 0xFF for k in range(f["orphan"]))
        iv = bytes(((ivn * 37 + fi * 11 + k * 7) & 0xFF) for k in range(16))
        packed, coders, sizes = encode_chain(blob, f["chain"], password, iv=iv)
        packs.append(packed)
        # "folder": one CRC per folder; "folder_partial": only for the folders not marked "nocrc" (partially defined vector)
        # "mixed": both levels at once - a folder with a single stream keeps its CRC in UnpackInfo (and lends it to that stream),
        # the streams of the other folders have theirs in SubStreamsInfo
        fcrc = zlib.crc32(blob) if (crc_mode == "folder" or (crc_mode == "folder_partial" and not f.get("nocrc")) or (crc_mode == "mixed" and len(f["members"]) == 1)) else None
        folders.append({"coders": coders, "sizes": sizes, "crc": fcrc})
        nums.append(len(f["members"]))
        ssizes.append([len(members[i]["data"]) for i in f["members"]])
        if crc_mode == "substream" or (crc_mode == "mixed" and len(f["members"]) != 1):
            scrcs.append([zlib.crc32(members[i]["data"]) for i in f["members"]])
        else:
            scrcs.append([None] * len(f["members"]))
    packcrcs = [zlib.crc32(p) for p in packs] if layout.get("packcrc") else None
    entries = []
    for i, m in enumerate(members):
        has_stream = i in set(flat)
        e = {"name": m["name"], "emptystream": not has_stream, "emptyfile": (not has_stream) and m["kind"] in ("file", "emptyfile", "symlink"),
             "mtime": m.get("mtime"), "ctime": m.get("ctime"), "atime": m.get("atime"), "attrs": m.get("attrs")}
        entries.append(e)
    hdr = bytearray([K_HEADER])
    if folders:
        hdr.append(K_MAINSTREAMS)
        if layout.get("no_substreams") and all(n == 1 for n in nums) and crc_mode != "substream":
            sub = None
        else:
            sub = {"nums": nums, "sizes": ssizes, "crcs": scrcs, "omit_nums": layout.get("omit_nums", False)}
        hdr += ser_streams(len(filler), [len(p) for p in packs], packcrcs, folders, sub)
    if entries:
        hdr += ser_files(entries, layout)
    hdr.append(K_END)
    hdr = bytes(hdr)
    body = filler + b"".join(packs)
    hmode = layout.get("header", "raw")
    if hmode == "raw":
        final = hdr
    else:
        chain = [{"id": "LZMA2"}] if hmode == "lzma" else ([{"id": "LZMA2"}, {"id": "AES"}] if hmode == "aes+lzma" else [{"id": "AES"}])
        hp, hcoders, hsizes = encode_chain(hdr, chain, password, iv=bytes(((ivn * 53 + k * 3 + 9) & 0xFF) for k in range(16)))
        enc = bytearray([K_ENCODED])
        enc += ser_streams(len(body), [len(hp)], [zlib.crc32(hp)] if layout.get("packcrc") else None,
                           [{"coders": hcoders, "sizes": hsizes, "crc": zlib.crc32(hdr) if layout.get("header_crc", True) else None}])
        body += hp
        final = bytes(enc)
    return signature_header(len(body), len(final), zlib.crc32(final)) + body + final


def reseal(image: bytes, raw_header: bytes, keep_upto=None) -> bytes:
    """Replace the header of ``image`` by ``raw_header`` stored raw after the data area and re-seal both CRCs, so that a
    reader's parser is entered with the mutated header."""
    nofs, nsize, ncrc = struct.unpack("<QQI", image[12:32])
    end = 32 + nofs if keep_upto is None else keep_upto
    body = image[32:end]
    return signature_header(len(body), len(raw_header), zlib.crc32(raw_header), version=(image[6], image[7])) + body + raw_header
