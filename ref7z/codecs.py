"""Coder primitives for the reference implementation.  One-shot calls into the third-party codec libraries
(trusted primitives), through entry points different from py7zr's streaming wrappers where possible;
BCJ filters via liblzma raw chains (not pybcj), Delta in pure Python, 7zAES key derivation via hashlib."""
import bz2
import hashlib
import lzma
import struct
import zlib

from Cryptodome.Cipher import AES

M_COPY = b"\x00"
M_DELTA = b"\x03"
M_BCJ_X86_OLD = b"\x04"
M_LZMA = b"\x03\x01\x01"
M_LZMA2 = b"\x21"
M_PPMD = b"\x03\x04\x01"
M_X86 = b"\x03\x03\x01\x03"
M_BCJ2 = b"\x03\x03\x01\x1b"
M_PPC = b"\x03\x03\x02\x05"
M_IA64 = b"\x03\x03\x04\x01"
M_ARM = b"\x03\x03\x05\x01"
M_ARMT = b"\x03\x03\x07\x01"
M_SPARC = b"\x03\x03\x08\x05"
M_BZIP2 = b"\x04\x02\x02"
M_DEFLATE = b"\x04\x01\x08"
M_DEFLATE64 = b"\x04\x01\x09"
M_ZSTD = b"\x04\xf7\x11\x01"
M_BROTLI = b"\x04\xf7\x11\x02"
M_LZ4 = b"\x04\xf7\x11\x04"
M_AES = b"\x06\xf1\x07\x01"

NAMES = {
    M_COPY: "COPY", M_DELTA: "DELTA", M_LZMA: "LZMA", M_LZMA2: "LZMA2", M_PPMD: "PPMd", M_X86: "BCJ",
    M_PPC: "PPC", M_IA64: "IA64", M_ARM: "ARM", M_ARMT: "ARMT", M_SPARC: "SPARC", M_BZIP2: "BZip2",
    M_DEFLATE: "DEFLATE", M_DEFLATE64: "DEFLATE64", M_ZSTD: "ZStandard", M_BROTLI: "Brotli", M_AES: "7zAES",
    M_BCJ2: "BCJ2*", M_LZ4: "LZ4*",
}

_BCJ_FILTER = {
    M_X86: lzma.FILTER_X86, M_PPC: lzma.FILTER_POWERPC, M_IA64: lzma.FILTER_IA64, M_ARM: lzma.FILTER_ARM,
    M_ARMT: lzma.FILTER_ARMTHUMB, M_SPARC: lzma.FILTER_SPARC,
}


class Unsupported(Exception):
    pass


class NeedPassword(Exception):
    pass


class CodecError(Exception):
    pass


# -- 7zAES -------------------------------------------------------------------------------
def aes_parse_props(props: bytes):
    if props is None or len(props) < 1:
        raise CodecError("7zAES: no properties")
    b0 = props[0]
    cycles = b0 & 0x3F
    saltsize = ivsize = 0
    pos = 1
    if b0 & 0xC0:
        if len(props) < 2:
            raise CodecError("7zAES: short properties")
        b1 = props[1]
        saltsize = ((b0 >> 7) & 1) + (b1 >> 4)
        ivsize = ((b0 >> 6) & 1) + (b1 & 0x0F)
        pos = 2
    if len(props) != pos + saltsize + ivsize:
        raise CodecError("7zAES: property length %d != %d" % (len(props), pos + saltsize + ivsize))
    salt = props[pos : pos + saltsize]
    iv = props[pos + saltsize : pos + saltsize + ivsize]
    return cycles, salt, iv


def aes_key(password: str, cycles: int, salt: bytes) -> bytes:
    pw = password.encode("utf-16-le")
    if cycles == 0x3F:
        return (salt + pw + bytes(32))[:32]
    if cycles > 24:
        raise CodecError("7zAES: cycles power %d too large" % cycles)
    h = hashlib.sha256()
    base = salt + pw
    # feed in batches to keep the pure-Python loop short
    n = 1 << cycles
    i = 0
    pack = struct.Struct("<Q").pack
    while i < n:
        m = min(n, i + 4096)
        h.update(b"".join([base + pack(j) for j in range(i, m)]))
        i = m
    return h.digest()


_KEYS = {}


def aes_decrypt(data: bytes, props: bytes, password, outsize=None) -> bytes:
    if password is None:
        raise NeedPassword()
    cycles, salt, iv = aes_parse_props(props)
    k = (password, cycles, salt)
    key = _KEYS.get(k)
    if key is None:
        key = aes_key(password, cycles, salt)
        if len(_KEYS) < 4096:
            _KEYS[k] = key
    iv = iv + bytes(16 - len(iv))
    if len(data) % 16:
        raise CodecError("7zAES: ciphertext length %d not a multiple of 16" % len(data))
    out = AES.new(key, AES.MODE_CBC, iv).decrypt(data) if data else b""
    return out


def aes_encrypt(data: bytes, password: str, cycles: int, salt: bytes, iv: bytes):
    key = aes_key(password, cycles, salt)
    pad = -len(data) & 15
    ct = AES.new(key, AES.MODE_CBC, iv + bytes(16 - len(iv))).encrypt(data + bytes(pad)) if data else b""
    saltfirst = 1 if salt else 0
    ivfirst = 1 if iv else 0
    b0 = cycles | (ivfirst << 6) | (saltfirst << 7)
    if salt or iv:
        b1 = ((len(iv) - ivfirst) & 0x0F) | (((len(salt) - saltfirst) << 4) & 0xF0)
        props = bytes([b0, b1]) + salt + iv
    else:
        props = bytes([b0])
    return ct, props


# -- LZMA family --------------------------------------------------------------------------
def lzma1_filter(props: bytes):
    if props is None or len(props) != 5:
        raise CodecError("LZMA: properties must be 5 bytes")
    d = props[0]
    if d >= 9 * 5 * 5:
        raise CodecError("LZMA: bad lc/lp/pb byte")
    lc = d % 9
    d //= 9
    lp = d % 5
    pb = d // 5
    dict_size = struct.unpack("<I", props[1:5])[0]
    return {"id": lzma.FILTER_LZMA1, "lc": lc, "lp": lp, "pb": pb, "dict_size": max(dict_size, 4096)}


def lzma2_filter(props: bytes):
    if props is None or len(props) != 1:
        raise CodecError("LZMA2: properties must be 1 byte")
    b = props[0]
    if b > 40:
        raise CodecError("LZMA2: bad dictionary code")
    ds = 0xFFFFFFFF if b == 40 else (2 | (b & 1)) << (b // 2 + 11)
    return {"id": lzma.FILTER_LZMA2, "dict_size": ds}


def _raw_lzma_decode(filters, data, outsize):
    d = lzma.LZMADecompressor(format=lzma.FORMAT_RAW, filters=filters)
    out = bytearray()
    try:
        out += d.decompress(data, outsize if outsize is not None else -1)
        guard = 0
        while outsize is not None and len(out) < outsize and not d.eof and guard < 64:
            more = d.decompress(b"", outsize - len(out))
            if not more:
                guard += 1
            out += more
    except lzma.LZMAError as e:
        raise CodecError("lzma: %s" % e)
    return bytes(out)


def _lzma2_uncompressed_chunks(data: bytes) -> bytes:
    """Wrap arbitrary bytes as an LZMA2 stream made of uncompressed chunks (so that liblzma's BCJ filters can be
    applied to them through a raw chain)."""
    out = bytearray()
    first = True
    for i in range(0, len(data), 65536):
        c = data[i : i + 65536]
        out += bytes([1 if first else 2]) + struct.pack(">H", len(c) - 1) + c
        first = False
    out += b"\x00"
    return bytes(out)


def bcj_decode(method: bytes, data: bytes) -> bytes:
    if not data:
        return b""
    filters = [{"id": _BCJ_FILTER[method]}, {"id": lzma.FILTER_LZMA2, "dict_size": 1 << 16}]
    return _raw_lzma_decode(filters, _lzma2_uncompressed_chunks(data), len(data))


def bcj_encode(method: bytes, data: bytes) -> bytes:
    if not data:
        return b""
    # encode through [BCJ, LZMA2 preset 0] and undo the LZMA2 layer
    filters = [{"id": _BCJ_FILTER[method]}, {"id": lzma.FILTER_LZMA2, "preset": 0}]
    c = lzma.LZMACompressor(format=lzma.FORMAT_RAW, filters=filters)
    packed = c.compress(data) + c.flush()
    return _raw_lzma_decode([{"id": lzma.FILTER_LZMA2, "dict_size": 1 << 26}], packed, len(data))


def delta_decode(data: bytes, dist: int) -> bytes:
    out = bytearray(data)
    for i in range(dist, len(out)):
        out[i] = (out[i] + out[i - dist]) & 0xFF
    return bytes(out)


def delta_encode(data: bytes, dist: int) -> bytes:
    out = bytearray(data)
    for i in range(len(out) - 1, dist - 1, -1):
        out[i] = (data[i] - data[i - dist]) & 0xFF
    return bytes(out)


# -- everything, by method id --------------------------------------------------------------
def decode(method: bytes, props, data: bytes, outsize, password=None) -> bytes:
    """Decode one coder stage.  ``outsize`` is the declared size of this coder's output."""
    try:
        if method == M_COPY:
            return data
        if method == M_LZMA:
            return _raw_lzma_decode([lzma1_filter(props)], data, outsize)
        if method == M_LZMA2:
            return _raw_lzma_decode([lzma2_filter(props)], data, outsize)
        if method == M_DELTA:
            if props is None or len(props) != 1:
                raise CodecError("Delta: properties must be 1 byte")
            return delta_decode(data, props[0] + 1)
        if method in _BCJ_FILTER:
            return bcj_decode(method, data)
        if method == M_BZIP2:
            return bz2.decompress(data)
        if method == M_DEFLATE:
            d = zlib.decompressobj(wbits=-15)
            return d.decompress(data) + d.flush()
        if method == M_DEFLATE64:
            import inflate64

            inf = inflate64.Inflater()
            out = inf.inflate(data)
            for _ in range(1024):
                if getattr(inf, "eof", False) or (outsize is not None and len(out) >= outsize):
                    break
                more = inf.inflate(b"")
                if not more:
                    break
                out += more
            return out
        if method == M_ZSTD:
            try:
                from backports import zstd as _z

                return _z.ZstdDecompressor().decompress(data) if data else b""
            except ImportError:
                import pyzstd

                return pyzstd.decompress(data)
        if method == M_BROTLI:
            import brotli

            if data[:4] == b"\x50\x2a\x4d\x18":
                raise Unsupported("brotli skippable frame")
            # py7zr ends its Brotli streams with flush() rather than finish(): no final block.  A streaming decoder
            # delivers all bytes all the same; whether the stream is "finished" is outside the rules C07 enforces.
            if not data:
                return b""
            dec = brotli.Decompressor()
            out = dec.process(data)
            for _ in range(64):
                if dec.is_finished():
                    break
                more = dec.process(b"")
                if not more:
                    break
                out += more
            return out
        if method == M_PPMD:
            import pyppmd

            if props is None or len(props) not in (5, 7):
                raise CodecError("PPMd: bad properties")
            order, mem = struct.unpack("<BL", props[:5])
            dec = pyppmd.Ppmd7Decoder(order, mem)
            out = dec.decode(data, outsize)
            guard = 0
            while len(out) < outsize and guard < 8:
                more = dec.decode(b"\0" if dec.needs_input else b"", outsize - len(out))
                if not more:
                    guard += 1
                out += more
            return out
        if method == M_AES:
            return aes_decrypt(data, props, password, outsize)
    except (NeedPassword, Unsupported, CodecError):
        raise
    except Exception as e:  # codec library errors
        raise CodecError("%s: %s: %s" % (NAMES.get(method, method.hex()), type(e).__name__, e))
    raise Unsupported("method %s" % method.hex())


def encode(method: bytes, data: bytes, params=None):
    """Encode one coder stage; returns (packed, props)."""
    params = params or {}
    if method == M_COPY:
        return data, None
    if method in (M_LZMA, M_LZMA2):
        fid = lzma.FILTER_LZMA1 if method == M_LZMA else lzma.FILTER_LZMA2
        f = {"id": fid, "preset": params.get("preset", 1)}
        props = lzma._encode_filter_properties(f)
        c = lzma.LZMACompressor(format=lzma.FORMAT_RAW, filters=[f])
        return c.compress(data) + c.flush(), props
    if method == M_DELTA:
        dist = params.get("dist", 1)
        return delta_encode(data, dist), bytes([dist - 1])
    if method in _BCJ_FILTER:
        return bcj_encode(method, data), None
    if method == M_BZIP2:
        return bz2.compress(data, params.get("level", 9)), None
    if method == M_DEFLATE:
        c = zlib.compressobj(params.get("level", 6), zlib.DEFLATED, -15)
        return c.compress(data) + c.flush(), None
    if method == M_DEFLATE64:
        import inflate64

        d = inflate64.Deflater()
        return d.deflate(data) + d.flush(), None
    if method == M_ZSTD:
        import pyzstd

        lvl = params.get("level", 3)
        return pyzstd.compress(data, lvl), struct.pack("BBBBB", pyzstd.zstd_version_info[0], pyzstd.zstd_version_info[1], lvl, 0, 0)
    if method == M_BROTLI:
        import brotli

        lvl = params.get("level", 5)
        return brotli.compress(data, quality=lvl), struct.pack("BBB", 1, 0, lvl)
    if method == M_PPMD:
        import pyppmd

        order, mem = params.get("order", 6), params.get("mem", 1 << 16)
        e = pyppmd.Ppmd7Encoder(order, mem)
        return e.encode(data) + e.flush(), struct.pack("<BLBB", order, mem, 0, 0)
    raise Unsupported("encode %s" % method.hex())
