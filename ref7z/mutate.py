"""Structure-aware header mutation for C05: tokenise a raw 7z header into labelled fields, mutate a few of them
(boundary values, dropped / duplicated / reordered sections, perturbed coder ids and properties), serialise and
re-seal all CRCs so that the reader's parser is actually entered."""
import struct

from .reader import (K_ATTRS, K_ATIME, K_CODERSUNPACKSIZE, K_CRC, K_CTIME, K_DUMMY, K_EMPTYFILE, K_EMPTYSTREAM, K_END, K_FILES, K_FOLDER,
                     K_HEADER, K_MAINSTREAMS, K_MTIME, K_NAMES, K_NUMUNPACKSTREAM, K_PACKINFO, K_SIZE, K_STARTPOS, K_SUBSTREAMS, K_UNPACKINFO,
                     K_ANTI, Buf, FormatError)
from .writer import number

BOUNDARY = [0, 1, 2, 0x7F, 0x80, 0xFF, 0x100, 0x3FFF, 0x4000, 0xFFFF, 0x10000, 0xFFFFFF, 1 << 24, (1 << 31) - 1, 1 << 31, (1 << 32) - 1, 1 << 32,
            (1 << 56) - 1, 1 << 56, (1 << 63) - 1, 1 << 63, (1 << 64) - 1]


class Tok:
    __slots__ = ("kind", "val", "label", "section")

    def __init__(self, kind, val, label, section):
        self.kind = kind  # id | num | u32 | u64 | byte | bytes | bits
        self.val = val
        self.label = label
        self.section = section

    def ser(self):
        k, v = self.kind, self.val
        if k in ("id", "byte"):
            return bytes([v & 0xFF])
        if k == "num":
            return number(v & ((1 << 64) - 1))
        if k == "u32":
            return struct.pack("<I", v & 0xFFFFFFFF)
        if k == "u64":
            return struct.pack("<Q", v & ((1 << 64) - 1))
        return bytes(v)

    def copy(self):
        return Tok(self.kind, self.val, self.label, self.section)


class Tokenizer:
    def __init__(self, data):
        self.b = Buf(data)
        self.toks = []
        self.sec = []

    def emit(self, kind, val, label):
        self.toks.append(Tok(kind, val, label, "/".join(self.sec)))

    def id(self, label="id"):
        v = self.b.byte()
        self.emit("id", v, label)
        return v

    def byte(self, label):
        v = self.b.byte()
        self.emit("byte", v, label)
        return v

    def num(self, label):
        v = self.b.number()
        self.emit("num", v, label)
        return v

    def u32(self, label):
        v = self.b.u32()
        self.emit("u32", v, label)
        return v

    def u64(self, label):
        v = self.b.u64()
        self.emit("u64", v, label)
        return v

    def raw(self, n, label):
        v = self.b.take(n)
        self.emit("bytes", v, label)
        return v

    def bitvec(self, n, label):
        v = self.b.take((n + 7) // 8)
        self.emit("bits", v, label)
        return [bool(v[i >> 3] & (0x80 >> (i & 7))) for i in range(n)]

    def optbits(self, n, label):
        a = self.byte(label + ".alldefined")
        if a:
            return [True] * n
        return self.bitvec(n, label)

    def rest(self, label="tail"):
        if self.b.left():
            self.raw(self.b.left(), label)

    # grammar ---------------------------------------------------------------------------------
    def streams(self):
        t = self.id()
        if t == K_PACKINFO:
            self.sec.append("packinfo")
            self.num("packpos")
            n = self.num("numpackstreams")
            t2 = self.id()
            if t2 == K_SIZE:
                for i in range(min(n, 4096)):
                    self.num("packsize")
                t2 = self.id()
            if t2 == K_CRC:
                d = self.optbits(min(n, 4096), "packcrc.defined")
                for x in d:
                    if x:
                        self.u32("packcrc")
                t2 = self.id()
            self.sec.pop()
            t = self.id()
        folders = []
        if t == K_UNPACKINFO:
            self.sec.append("unpackinfo")
            self.id("folder_id")
            nf = self.num("numfolders")
            self.byte("external")
            for _ in range(min(nf, 256)):
                folders.append(self.folder())
            self.id("codersunpacksize_id")
            for f in folders:
                for _ in range(f):
                    self.num("unpacksize")
            t2 = self.id()
            if t2 == K_CRC:
                d = self.optbits(len(folders), "foldercrc.defined")
                for x in d:
                    if x:
                        self.u32("foldercrc")
                t2 = self.id()
            self.sec.pop()
            t = self.id()
        if t == K_SUBSTREAMS:
            self.sec.append("substreams")
            nums = [1] * len(folders)
            t2 = self.id()
            if t2 == K_NUMUNPACKSTREAM:
                nums = [self.num("numunpackstream") for _ in folders]
                t2 = self.id()
            if t2 == K_SIZE:
                for n in nums:
                    for _ in range(min(max(n - 1, 0), 4096)):
                        self.num("substreamsize")
                t2 = self.id()
            if t2 == K_CRC:
                tot = min(sum(nums), 4096)
                d = self.optbits(tot, "substreamcrc.defined")
                for x in d:
                    if x:
                        self.u32("substreamcrc")
                t2 = self.id()
            self.sec.pop()
            t = self.id()

    def folder(self):
        nc = self.num("numcoders")
        tout = 0
        tin = 0
        for _ in range(min(nc, 32)):
            flag = self.byte("coderflag")
            self.raw(flag & 0x0F, "methodid")
            nin = nout = 1
            if flag & 0x10:
                nin = self.num("numin")
                nout = self.num("numout")
            if flag & 0x20:
                pl = self.num("proplen")
                self.raw(min(pl, self.b.left()), "props")
            tin += nin
            tout += nout
        for _ in range(min(max(tout - 1, 0), 64)):
            self.num("bind.in")
            self.num("bind.out")
        np_ = tin - max(tout - 1, 0)
        if np_ > 1:
            for _ in range(min(np_, 64)):
                self.num("packedindex")
        return min(tout, 64)

    def files(self):
        self.sec.append("files")
        n = self.num("numfiles")
        nempty = 0
        while True:
            t = self.id("propid")
            if t == K_END:
                break
            size = self.num("propsize")
            end = self.b.p + size
            if end > len(self.b.d):
                self.rest()
                break
            sub = Tokenizer(self.b.d[self.b.p:end])
            sub.sec = self.sec + ["prop%02x" % t]
            try:
                if t == K_EMPTYSTREAM:
                    v = sub.bitvec(n, "emptystream")
                    nempty = sum(v)
                elif t in (K_EMPTYFILE, K_ANTI):
                    sub.bitvec(nempty, "emptyfile")
                elif t == K_NAMES:
                    sub.byte("external")
                    sub.rest("names")
                elif t in (K_MTIME, K_CTIME, K_ATIME, K_STARTPOS):
                    d = sub.optbits(n, "time.defined")
                    sub.byte("external")
                    for x in d:
                        if x:
                            sub.u64("time")
                elif t == K_ATTRS:
                    d = sub.optbits(n, "attr.defined")
                    sub.byte("external")
                    for x in d:
                        if x:
                            sub.u32("attr")
                sub.rest()
            except FormatError:
                sub.rest()
            self.toks += sub.toks
            self.b.p = end
        self.sec.pop()


def tokenize(raw_header: bytes):
    """Flat labelled token list of a raw (kHeader) header - or of the outer kEncodedHeader record; the tokens serialise back
    to exactly ``raw_header``."""
    tk = Tokenizer(raw_header)
    try:
        t = tk.id("header_id")
        if t == K_HEADER:
            t = tk.id()
            if t == K_MAINSTREAMS:
                tk.sec.append("main")
                tk.streams()
                tk.sec.pop()
                t = tk.id()
            if t == K_FILES:
                tk.files()
                t = tk.id()
        elif t == 0x17:  # kEncodedHeader: the StreamsInfo that describes the packed header
            tk.sec.append("encoded")
            tk.streams()
            tk.sec.pop()
    except FormatError:
        pass
    tk.rest()
    assert b"".join(x.ser() for x in tk.toks) == raw_header, "tokenizer is not lossless"
    return tk.toks


def serialise(toks) -> bytes:
    return b"".join(t.ser() for t in toks)


def mutate(toks, rng, nmut=None):
    """Returns (new token list, description list).  1..3 mutations."""
    toks = [t.copy() for t in toks]
    desc = []
    nmut = nmut or rng.wpick([(5, 1), (3, 2), (2, 3)])
    for _ in range(nmut):
        aes = [i for i, t in enumerate(toks) if t.label == "props" and i > 1 and toks[i - 2].label == "methodid" and bytes(toks[i - 2].val) == b"\x06\xf1\x07\x01"]
        kind = rng.wpick([(10, "field"), (2, "section_drop"), (2, "section_dup"), (1, "section_swap"), (2, "coder"), (1, "resize_blob"), (1, "fix_propsize"),
                          (4 if aes else 0, "aes_cycles")])
        if kind == "aes_cycles":
            t = toks[rng.pick(aes)]
            b = bytearray(t.val)
            if b:
                cyc = rng.pick([0, 1, 18, 20, 23, 25, 26, 30, 40, 62, 63])
                b[0] = (b[0] & 0xC0) | cyc
                t.val = bytes(b)
                desc.append("7zAES NumCyclesPower -> %d" % cyc)
            continue
        if kind == "field":
            cands = [i for i, t in enumerate(toks) if t.kind in ("num", "u32", "u64", "byte", "id", "bits")]
            if not cands:
                continue
            i = rng.pick(cands)
            t = toks[i]
            if t.kind == "bits":
                b = bytearray(t.val)
                if b:
                    j = rng.randrange(len(b))
                    b[j] = rng.pick([0, 0xFF, b[j] ^ (1 << rng.randrange(8))])
                t.val = bytes(b)
                desc.append("%s/%s bits" % (t.section, t.label))
            else:
                old = t.val
                lim = {"num": 1 << 64, "u64": 1 << 64, "u32": 1 << 32, "byte": 256, "id": 256}[t.kind]
                v = rng.wpick([(6, rng.pick(BOUNDARY)), (2, old + 1), (2, max(old - 1, 0)), (1, old * 2), (1, rng.randrange(lim))]) % lim
                t.val = v
                desc.append("%s/%s %r->%r" % (t.section, t.label, old, v))
        elif kind in ("section_drop", "section_dup", "section_swap"):
            secs = sorted({t.section for t in toks if t.section})
            if not secs:
                continue
            s = rng.pick(secs)
            idx = [i for i, t in enumerate(toks) if t.section == s or t.section.startswith(s + "/")]
            if not idx:
                continue
            lo, hi = idx[0], idx[-1] + 1
            if kind == "section_drop":
                del toks[lo:hi]
                desc.append("drop %s" % s)
            elif kind == "section_dup":
                toks[hi:hi] = [t.copy() for t in toks[lo:hi]]
                desc.append("dup %s" % s)
            else:
                s2 = rng.pick(secs)
                idx2 = [i for i, t in enumerate(toks) if t.section == s2 or t.section.startswith(s2 + "/")]
                if idx2 and (idx2[0] >= hi or idx2[-1] < lo):
                    lo2, hi2 = idx2[0], idx2[-1] + 1
                    if lo2 < lo:
                        lo, hi, lo2, hi2 = lo2, hi2, lo, hi
                    toks[lo:hi2] = toks[lo2:hi2] + toks[hi:lo2] + toks[lo:hi]
                    desc.append("swap %s %s" % (s, s2))
        elif kind == "coder":
            cands = [i for i, t in enumerate(toks) if t.label in ("methodid", "props", "coderflag")]
            if not cands:
                continue
            i = rng.pick(cands)
            t = toks[i]
            if t.kind == "byte":
                t.val = rng.pick([0, 0x10 | (t.val & 0x0F), 0x20 | (t.val & 0x0F), 0x30 | (t.val & 0x0F), t.val ^ 0x0F, 0xFF, 0x2F])
            else:
                b = bytearray(t.val)
                if b:
                    j = rng.randrange(len(b))
                    b[j] = rng.pick([0, 0xFF, 40, 41, 0x5D, b[j] ^ (1 << rng.randrange(8)), rng.randrange(256)])
                elif rng.chance(0.5):
                    b = bytearray(rng.bytes_(rng.randint(1, 5)))
                t.val = bytes(b)
            desc.append("%s/%s coder" % (t.section, t.label))
        elif kind == "resize_blob":
            cands = [i for i, t in enumerate(toks) if t.kind == "bytes"]
            if not cands:
                continue
            i = rng.pick(cands)
            t = toks[i]
            how = rng.pick(["trunc", "extend", "zero"])
            if how == "trunc":
                t.val = t.val[: rng.randrange(len(t.val) + 1)]
            elif how == "extend":
                t.val = t.val + rng.bytes_(rng.randint(1, 16))
            else:
                t.val = bytes(len(t.val))
            desc.append("%s/%s blob %s" % (t.section, t.label, how))
        else:
            # keep file property sizes consistent with their (possibly mutated) payloads so that deeper code is reached
            fix_propsizes(toks)
            desc.append("fix propsizes")
    return toks, desc


def fix_propsizes(toks):
    i = 0
    while i < len(toks):
        t = toks[i]
        if t.label == "propsize":
            sec = None
            j = i + 1
            total = 0
            while j < len(toks) and toks[j].section.startswith(t.section + "/prop"):
                total += len(toks[j].ser())
                j += 1
            t.val = total
            i = j
        else:
            i += 1
