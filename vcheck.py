#!/venv/bin/python
"""./check <ID> [quick|thorough] [--replay FILE] [--n N] [--budget S] [--workers K]
   ./check setup | selftest-determinism [IDs...] | selftest-mutants [names...]"""
import importlib
import os
import sys

HERE = os.path.dirname(os.path.abspath(__file__))
sys.path.insert(0, HERE)

if os.environ.get("PYTHONHASHSEED") is None:
    os.environ["PYTHONHASHSEED"] = "0"
    os.execv(sys.executable, [sys.executable, "-X", "faulthandler"] + sys.argv)


def main(argv):
    from simkit import driver
    from simkit.seams import import_py7zr

    if not argv:
        print(__doc__)
        return 2
    cmd = argv[0]
    import_py7zr()
    if cmd == "setup":
        import selftest

        return selftest.setup()
    if cmd == "selftest-determinism":
        import selftest

        return selftest.determinism(argv[1:])
    if cmd == "selftest-mutants":
        import selftest

        return selftest.mutants(argv[1:])
    prop = cmd.upper()
    mod = importlib.import_module("props.%s" % prop.lower())
    tier = os.environ.get("VERIF_TIER", "quick")
    rest = argv[1:]
    if rest and rest[0] in ("quick", "thorough"):
        tier = rest[0]
        rest = rest[1:]
    opts = {}
    i = 0
    while i < len(rest):
        if rest[i] == "--replay":
            return driver.replay(mod, rest[i + 1])
        if rest[i] in ("--n", "--budget", "--workers"):
            opts[rest[i][2:]] = int(rest[i + 1])
            i += 2
            continue
        print("unknown argument %r" % rest[i])
        return 2
    seed = driver.seed_from_env()
    r = driver.Runner(mod, tier, seed, nworkers=opts.get("workers"), n=opts.get("n"), budget_s=opts.get("budget"))
    return r.run()


if __name__ == "__main__":
    sys.exit(main(sys.argv[1:]))
